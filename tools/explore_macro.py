# explore_macro.py — exploration for C09 (faithful substitution, priority/leftmost/longest), C10 (hygiene of
# temporaries), C11 (pass budget), C12 (ambiguous patterns rejected, deterministic accepted).
# Tie: scan+extract+apply of the implementation against the extracted model at budgets 1..N.
# Oracles on the implementation: C09 a brute-force matcher (chart recogniser of the detector grammar) enumerating all
# valid steps; C10 freshness of renamed temporaries step by step; C11 budget bookkeeping; C12 the model's verdict
# (the construction the theorems are about) plus the families every pattern of which must be rejected.
import itertools, os, re, sys
from functools import lru_cache
sys.path.insert(0, os.path.dirname(os.path.abspath(__file__)))
import vlib

K = {'ID': 1, 'NV_ID': 2, 'INT': 3, 'ARGSEP': 6, 'PROGSEP': 7, 'LABELDEC': 8, 'ASSIGN': 9, 'NEQ_ZERO': 10, 'EQ': 11, 'DO': 12, 'LOOP': 13,
     'WHILE': 14, 'GOTO': 15, 'IF': 16, 'THEN': 17, 'STOP': 18, 'END': 19, 'RUN': 36, 'WITH': 37,
     'PROG_TEMP': 29, 'VALUE_TEMP': 30, 'ID_TEMP': 31, 'INT_TEMP': 32, 'ARGS_TEMP': 33, 'INSERTION': 34, 'TEMP_VAL': 35, 'T_EOF': 0}
SLOT_NT = {31: 'ID', 32: 'INT', 33: 'ARGS', 29: 'P', 30: 'VALUE'}


def parse_toks(line):
    """'toks=N k:file:line:text ... errs=M ...' -> (tokens [(kind, file, line, text)], errs list)"""
    if not line.startswith('toks='):
        return None
    parts = line.split()
    n = int(parts[0][5:])
    toks = []
    for t in parts[1:1 + n]:
        k, f, l, x = t.split(':')
        toks.append((int(k), f, int(l), x))
    rest = parts[1 + n:]
    return toks, rest[1:] if rest else []


class Chart:
    """does a token range derive from a non-terminal of the detector grammar (macro.cpp:314-339)?"""

    def __init__(self, kinds):
        self.k = kinds
        self.memo = {}

    def d(self, nt, i, j):
        key = (nt, i, j)
        if key in self.memo:
            return self.memo[key]
        self.memo[key] = False
        r = self._d(nt, i, j)
        self.memo[key] = r
        return r

    def _d(self, nt, i, j):
        k = self.k
        n = j - i
        if n <= 0:
            return False
        if nt == 'ID':
            return n == 1 and k[i] == K['ID']
        if nt == 'INT':
            return n == 1 and k[i] == K['INT']
        if nt == 'VALUE':
            if n == 1:
                return k[i] in (K['ID'], K['INT'])
            return (n >= 5 and k[i] == K['RUN'] and k[i + 1] == K['ID'] and k[i + 2] == K['WITH'] and k[j - 1] == K['END']
                    and self.d('ARGS', i + 3, j - 1))
        if nt == 'ARGS':
            if self.d('VALUE', i, j):
                return True
            return any(k[m] == K['ARGSEP'] and self.d('ARGS', i, m) and self.d('VALUE', m + 1, j) for m in range(i + 1, j - 1))
        if nt == 'P':
            if self.d('STATEMENT', i, j):
                return True
            return any(k[m] == K['PROGSEP'] and self.d('P', i, m) and self.d('STATEMENT', m + 1, j) for m in range(i + 1, j - 1))
        if nt == 'STATEMENT':
            if self.d('ATOMIC_P', i, j):
                return True
            return n >= 3 and k[i] == K['ID'] and k[i + 1] == K['LABELDEC'] and self.d('ATOMIC_P', i + 2, j)
        if nt == 'ATOMIC_P':
            if n == 1:
                return k[i] == K['STOP']
            if k[i] == K['ID'] and n >= 3 and k[i + 1] == K['ASSIGN'] and self.d('VALUE', i + 2, j):
                return True
            if k[i] == K['LOOP'] and n >= 5 and k[i + 1] == K['ID'] and k[i + 2] == K['DO'] and k[j - 1] == K['END'] and self.d('P', i + 3, j - 1):
                return True
            if (k[i] == K['WHILE'] and n >= 6 and k[i + 1] == K['ID'] and k[i + 2] == K['NEQ_ZERO'] and k[i + 3] == K['DO']
                    and k[j - 1] == K['END'] and self.d('P', i + 4, j - 1)):
                return True
            if k[i] == K['GOTO'] and n == 2 and k[i + 1] == K['ID']:
                return True
            if (k[i] == K['IF'] and n == 7 and k[i + 1] == K['ID'] and k[i + 2] == K['EQ'] and k[i + 3] == K['INT'] and k[i + 4] == K['THEN']
                    and k[i + 5] == K['GOTO'] and k[i + 6] == K['ID']):
                return True
            return False
        return False


def match_pattern(chart, toks, pat, i, j):
    """all slot assignments with which toks[i:j] matches the pattern; each = list of (a, b) ranges per pattern symbol"""
    out = []

    def go(pi, pos, acc):
        if pi == len(pat):
            if pos == j:
                out.append(list(acc))
            return
        p = pat[pi]
        if p[0] in SLOT_NT:
            for e in range(pos + 1, j + 1):
                if chart.d(SLOT_NT[p[0]], pos, e):
                    acc.append((pos, e))
                    go(pi + 1, e, acc)
                    acc.pop()
        else:
            if pos < j and toks[pos][0] == p[0] and (p[0] not in (1, 2, 3) or toks[pos][3] == p[3]):
                acc.append((pos, pos + 1))
                go(pi + 1, pos + 1, acc)
                acc.pop()
    go(0, i, [])
    return out


def instantiate(m, toks, ranges, passno):
    out = []
    slots = [idx for idx, p in enumerate(m['rule']) if p[0] in SLOT_NT]
    first_line = m['repl'][0][2] if m['repl'] else 0
    for c in m['repl']:
        if c[0] == K['INSERTION']:
            n = int((vlib.unhex_s(c[3])[1:]) or 0)
            a, b = ranges[slots[n]]
            out += [(t[0], t[3]) for t in toks[a:b]]
        elif c[0] == K['TEMP_VAL']:
            name = vlib.unhex(c[3]) + b':' + (bytes.fromhex(c[1]) if c[1] != '-' else b'') + b':' + str(first_line).encode() + b'_(M' + str(passno).encode() + b')'
            out.append((K['ID'], name.hex()))
        else:
            out.append((c[0], c[3]))
    return out


def parse_extract(line):
    """extract result: tokens, errors, macros [{prio, rule, repl}]"""
    m = re.match(r'(toks=.*?) macros=(\d+)(.*)$', line)
    if not m:
        return None
    tk = parse_toks(m.group(1))
    macros = []
    for mm in re.finditer(r'\{prio=(-?\d+) rule=(\d+)(.*?) cc=(\S*) tt=(\S*) repl=(\d+)(.*?)\}', m.group(3)):
        def tl(s):
            r = []
            for t in s.split():
                k, f, l, x = t.split(':')
                r.append((int(k), f, int(l), x))
            return r
        macros.append({'prio': int(mm.group(1)), 'rule': tl(mm.group(3)), 'repl': tl(mm.group(7))})
    return tk[0], tk[1], macros


# (definitions, vocabulary for the exhaustive short streams, hand-written streams exercising overlaps)
FAMILIES = [
    (['DEFINE PRIO 0 <V> <P> + AS q $1 $1 END DEFINE', 'DEFINE PRIO 0 <ID> <ID> AS 9 $1 END DEFINE'],
     ['a', 'b', '1', '+', ';', ':=', 'x', 'STOP'], ['b b := b + 1', 'a b x := 1 + b', 'a a b := 1 + a', '1 a := 1 ; b := a + b b']),
    (['DEFINE PRIO 0 <ID> <ID> AS 9 $1 END DEFINE', 'DEFINE PRIO 0 <V> <P> + AS q $1 $1 END DEFINE'],
     ['a', 'b', '1', '+', ';', ':=', 'x', 'STOP'], ['b b := b + 1', 'a b x := 1 + b', 'a a b := 1 + a', 'x a b STOP + b']),
    (['DEFINE PRIO 5 a b AS x END DEFINE', 'DEFINE PRIO 7 b a AS y END DEFINE', 'DEFINE PRIO 5 a AS z END DEFINE'],
     ['a', 'b', 'x', 'y', 'z', '1', ';', ':='], ['a b a b', 'b a b a a', 'a a b b a']),
    (['DEFINE <ID> + <INT> AS RUN inc WITH $0 , $1 END END DEFINE', 'DEFINE PRIO 2 <V> + AS p $0 END DEFINE'],
     ['a', 'b', '1', '2', '+', ':=', ';', 'x'], ['a := b + 1 + 2', 'a + 1 + b + 2 +', 'x := a + b + 1']),
    (['DEFINE PRIO 3 IF <V> THEN <P> ELSE <P> FI AS #0 := $0 ; LOOP #0 DO $1 END ; $2 END DEFINE'],
     ['IF', 'a', 'THEN', 'x', ':=', '1', 'ELSE', 'FI'], ['IF a THEN x := 1 ELSE x := a FI', 'IF 1 THEN IF a THEN x := 1 ELSE x := 1 FI ELSE a := 1 FI',
                                                         'IF a THEN x := 1 ; a := x ELSE a := 1 FI ; IF x THEN a := 1 ELSE x := 1 FI']),
    (['DEFINE f ( <ARGS> ) AS RUN f WITH $0 END END DEFINE', 'DEFINE <INT> ! AS $0 $0 END DEFINE'],
     ['f', '(', ')', 'a', ',', '1', '!', '+'], ['f ( a , 1 ) 1 !', 'f ( f ( a ) , 1 ! )', 'f ( 1 ! , a )']),
    (['DEFINE PRIO 1 1 a AS one END DEFINE', 'DEFINE PRIO 1 <INT> a AS int END DEFINE', 'DEFINE PRIO 1 + a AS plus END DEFINE'],
     ['1', '2', 'a', '+', '-', 'b', ';', 'x'], ['1 a 2 a + a - a', '2 a 1 a', '+ a 1 a']),
    (['DEFINE swap <ID> <ID> AS #0 := $0 ; $0 := $1 ; $1 := #0 END DEFINE', 'DEFINE twice <P> end AS $0 ; $0 END DEFINE'],
     ['swap', 'twice', 'a', 'b', ':=', '1', ';', 'end'], ['twice swap a b end', 'swap a b ; swap b a', 'twice twice a := 1 end end']),
    (['DEFINE PRIO 9 a AS b END DEFINE', 'DEFINE PRIO 8 b AS a a END DEFINE'],
     ['a', 'b', 'x', '1', ';', ':=', '+', 'c'], ['a b', 'b a b', 'x a']),
    (['DEFINE PRIO 10 <V> - <V> AS RUN sub WITH $0 , $1 END END DEFINE', 'DEFINE PRIO 10 <V> + <V> AS RUN add WITH $0 , $1 END END DEFINE',
      'DEFINE PRIO 30 <ID> ( <ARGS> ) AS RUN $0 WITH $1 END END DEFINE'],
     ['a', 'b', '-', '+', 'f', '(', ')', '1'], ['r := x - y + f ( z )', 'a - b + f ( 1 )', 'a + b - f ( a , b )', 'x + y - z + 1 - 2']),
    (['DEFINE PRIO 10 <V> + <V> AS RUN add WITH $0 , $1 END END DEFINE', 'DEFINE PRIO 10 <V> - <V> AS RUN sub WITH $0 , $1 END END DEFINE',
      'DEFINE PRIO 10 <V> * <V> AS RUN mul WITH $1 , $0 END END DEFINE'],
     ['a', 'b', '-', '+', '*', '1', 'x', ':='], ['x - y + RUN f WITH z END', 'a * b + 1 - a', 'a - RUN g WITH 1 END * b']),
    # keywords in a pattern match by kind: every spelling of DO / END / LOOP / WHILE must match the pattern token
    (['DEFINE TWICE DO <P> END AS $0 ; $0 END DEFINE', 'DEFINE REPEAT <ID> LOOP <P> END AS loop $0 do $1 end END DEFINE'],
     ['TWICE', 'REPEAT', 'DO', 'do', 'END', 'end', 'LOOP', 'loop'],
     ['TWICE do a := 1 end', 'TWICE Do a := 1 End ; TWICE DO a := 1 END', 'REPEAT n Loop a := 1 end', 'REPEAT n loop TWICE do b := 2 End END']),
    (['DEFINE <P> ; AS $0 END DEFINE', 'DEFINE a AS ok END DEFINE'],
     ['a', 'b', ':=', '1', ';', 'x', 'STOP', 'ok'], ['a ; a', 'x := 1 ; a']),
    (['DEFINE PRIO 2 x : <P> ; ; AS $0 END DEFINE', 'DEFINE PRIO 2 <ID> : = AS $0 := END DEFINE'],
     ['x', ':', ';', '=', 'a', ':=', '1', 'STOP'], ['x : a := 1 ; ; a : = 1', 'a : = x : STOP ; ;']),
]


def mutate_stream(rng, stream, voc):
    t = stream.split()
    for _ in range(rng.randint(1, 3)):
        x = rng.random()
        i = rng.randrange(len(t) + 1)
        if x < 0.4 or not t:
            t.insert(i, rng.choice(voc))
        elif x < 0.7:
            del t[min(i, len(t) - 1)]
        else:
            t[min(i, len(t) - 1)] = rng.choice(voc)
    return ' '.join(t)


def explore(ctx, res, replay=None):
    pid = ctx.pid
    rng = ctx.rng
    quick = ctx.quick()
    cases = []
    meta = {}
    n = 0

    def add(kind, defs, stream, budgets):
        nonlocal n
        src = '\n'.join(defs) + '\n' + stream
        for b in budgets:
            cid = 'm%d_%d' % (n, b)
            cases.append((cid, 'apply %d %s' % (b, vlib.files_fields('m', {'m': src}))))
            meta[cid] = (kind, defs, stream, b, n)
        cid = 'x%d' % n
        cases.append((cid, 'extract ' + vlib.files_fields('m', {'m': src})))
        meta[cid] = (kind, defs, stream, None, n)
        n += 1

    if replay and 'violation' in replay and 'defs' in replay['violation']:
        v = replay['violation']
        add('replay', v['defs'], v['stream'], v.get('budgets', [1, 2, 3, 8]))
    elif pid == 'C12':
        alpha = ['<ID>', '<INT>', '<V>', '<ARGS>', '<P>', 'x', '7', '+', ';', ',', 'LOOP', 'END']
        L = 2 if quick else 3
        pats = []
        for ln in range(1, L + 1):
            pats += [list(p) for p in itertools.product(alpha, repeat=ln)]
        if quick:
            pats += [list(p) for p in rng.sample(list(itertools.product(alpha, repeat=3)), 500)]
        slots_ = ['<ID>', '<INT>', '<V>', '<ARGS>', '<P>']
        for s1 in slots_:
            for sep in [';', ',', 'x']:
                for s2 in slots_:
                    for tail in [[], ['END'], ['x'], [';'], [','], ['+']]:
                        pats.append([s1, sep, s2] + tail)
                        pats.append(['LOOP', s1, sep, s2] + tail)
        inst = {'<ID>': 'a', '<INT>': '3', '<V>': 'b', '<ARGS>': 'a , 4', '<P>': 'c := 1'}
        inst2 = {'<ID>': 'a', '<INT>': '3', '<V>': 'RUN g WITH b END', '<ARGS>': 'a , 4 , b', '<P>': 'c := 1 ; d := 2 ; STOP'}
        # several rejected macros in a row, at the start, at the end, between accepted ones: each must be reported at its own
        # definition and none may be applied
        bad = ['DEFINE TWICE <P> AS $0 ; $0 END DEFINE', 'DEFINE <P> BUT FIRST <P> AS $1 ; $0 END DEFINE', 'DEFINE ALL <ARGS> AS RUN f WITH $0 END END DEFINE',
               'DEFINE <P> ; AGAIN AS $0 ; $0 END DEFINE', 'DEFINE <ID> [ <ARGS> , <ARGS> ] AS RUN $0 WITH $1 END END DEFINE']
        good = ['DEFINE CLEAR <ID> AS $0 := 0 END DEFINE', 'DEFINE GOOD AS fine END DEFINE']
        uses = 'CLEAR x0 ; TWICE x0 := 2 ; GOOD ; a := 1 BUT FIRST b := 2 ; ALL 1 , 2 ; c := 3 ; AGAIN ; g [ 1 , 2 , 3 ]'
        for combo in ([0, 1], [1, 0], [0, 1, 2], [2, 3, 4], [0, 1, 2, 3, 4], [3, 0], [4, 2, 1]):
            run = [bad[k] for k in combo]
            for layout in (run + good, good + run, [good[0]] + run + [good[1]], run[:1] + [good[0]] + run[1:] + [good[1]]):
                add('rejected_run', layout, uses, [4])
        for p in pats:
            use = ' '.join(inst.get(s, s) for s in p)
            use2 = ' '.join(inst2.get(s, s) for s in p)
            add('pattern', ['DEFINE %s AS hit END DEFINE' % ' '.join(p), 'DEFINE GOOD AS fine END DEFINE'], 'GOOD ; %s ; GOOD %s end %s' % (use, use, use2), [4])
    else:
        L = (4 if pid == 'C09' else 3) if quick else 6
        for fam, voc, seeds in FAMILIES:
            bl = [1] if pid == 'C09' else [1, 2, 3, 5]
            for sd in seeds:
                add('seed', fam, sd, bl)
                for _ in range(30 if quick else 400):
                    add('seed_mutant', fam, mutate_stream(rng, sd, voc), bl)
            for ln in range(1, L + 1):
                combos = list(itertools.product(voc, repeat=ln))
                if len(combos) > (400 if quick else 20000):
                    combos = rng.sample(combos, 400 if quick else 20000)
                for w in combos:
                    add('family', fam, ' '.join(w), [1] if pid == 'C09' else [1, 2, 3, 5])
        # longer random streams with nested uses
        for _ in range(300 if quick else 5000):
            fam, voc, _ = rng.choice(FAMILIES)
            add('random', fam, ' '.join(rng.choice(voc) for _ in range(rng.randint(5, 14))), [1, 2, 4, 16] if pid != 'C09' else [1])
        if pid in ('C10', 'C11'):
            hyg = ['DEFINE swap <ID> <ID> AS #0 := $0 ; $0 := $1 ; $1 := #0 END DEFINE', 'DEFINE twice <P> end AS $0 ; $0 END DEFINE',
                   'DEFINE zero <V> AS #1 := $0 ; #1 := 0 END DEFINE']
            for s in ('swap a b ; swap b a', 'twice swap a b end', 'twice twice swap a b end end', 'zero RUN f WITH zero END', 'twice zero a ; swap a b end ; zero b'):
                add('hygiene', hyg, s, list(range(1, 12)))
            for (l1, l2) in ((1, 11), (2, 21), (1, 12), (11, 111)):
                src_lines = [''] * (max(l1, l2) + 2)
                src_lines[l1 - 1] = 'DEFINE SAVE <ID> AROUND <P> END AS #0 := $0 ; $1 ; $0 := #0 END DEFINE'
                src_lines[l2 - 1] = 'DEFINE ZERO <ID> AS #0 := 0 ; $0 := #0 END DEFINE'
                src_lines[max(l1, l2)] = 'DEFINE NOP AS q := q END DEFINE'
                for k_ in (0, 3, 8, 9, 10, 11):
                    add('hygiene_lines', src_lines, 'x := 7 ; SAVE x AROUND ZERO y' + ' ; NOP' * k_ + ' END', list(range(1, k_ + 4)))
            # several macro definitions on ONE line (their bodies start on the same line of the same file): only the step
            # number keeps their temporaries apart
            one_line = ('DEFINE SAVE <ID> AROUND <P> END AS #0 := $0 ; $1 ; $0 := #0 END DEFINE DEFINE ZERO <ID> AS #0 := 0 ; $0 := #0 END DEFINE '
                        'DEFINE SEVEN <ID> DO <P> END AS #0 := 7 ; $1 ; $0 := #0 END DEFINE DEFINE NOP AS q := q END DEFINE')
            for s in ('x := 7 ; SAVE x AROUND ZERO y END', 'x := 5 ; SAVE x AROUND SEVEN y DO x := 1 END END ; z := x', 'SEVEN a DO SAVE a AROUND ZERO b END END',
                      'NOP ; SAVE x AROUND NOP ; ZERO y END ; NOP', 'ZERO a ; ZERO b ; SAVE a AROUND ZERO a END'):
                add('hygiene_sameline', [one_line], s, list(range(1, 9)))
            # a macro body spread over several lines: the same #n on different lines of one body is one variable
            multi = ['DEFINE SAVE <ID> AROUND <P> END AS #0 := $0 ;', '$1 ;', '', '$0 := #0', 'END DEFINE', 'DEFINE ZERO <ID> AS', '#0 := 0 ;', '#1 := #0 ;',
                     '$0 := #1 END DEFINE', 'DEFINE NOP', 'AS q := q', 'END DEFINE']
            for s in ('x := 7 ; SAVE x AROUND ZERO y END', 'ZERO a ; SAVE a AROUND ZERO a END ; ZERO a', 'SAVE a AROUND SAVE b AROUND NOP END END', 'ZERO a ;\nZERO b\n; NOP'):
                add('hygiene_multiline', multi, s, list(range(1, 8)))
            # temporaries on equal line numbers in several files, file names with ':' '_(M' ')' and digits
            loops = ['DEFINE PRIO 10 ping AS pong END DEFINE\nDEFINE PRIO 5 pong AS ping END DEFINE', 'DEFINE PRIO 7 nop AS x END DEFINE\nDEFINE grow AS grow grow END DEFINE',
                     'DEFINE PRIO 3 a AS b END DEFINE\nDEFINE PRIO 2 b AS c END DEFINE\nDEFINE PRIO 1 c AS a END DEFINE', 'DEFINE grow AS grow grow END DEFINE', 'DEFINE ping AS pong END DEFINE\nDEFINE pong AS ping END DEFINE', 'DEFINE one AS two END DEFINE\nDEFINE two AS three END DEFINE']
            for d, s in zip(loops, ('ping', 'grow nop', 'a x', 'grow', 'ping', 'one one')):
                add('selfrep', [d], s, list(range(1, 21)) + [1024])
            # a runaway macro that leaves a numbered temporary at every step, next to definitions on other priority levels:
            # after budget b no temporary may carry a pass number >= b
            for d in ('DEFINE PRIO 10 grow <ID> AS #0 := 0 ; grow $0 END DEFINE\nDEFINE PRIO 20 clear <ID> AS $0 := 0 END DEFINE\nDEFINE PRIO 5 other AS x END DEFINE',
                      'DEFINE grow <ID> AS #0 := 0 ; grow $0 END DEFINE',
                      'DEFINE PRIO 3 ping <ID> AS #1 := $0 ; pong $0 END DEFINE\nDEFINE PRIO 8 pong <ID> AS #1 := $0 ; ping $0 END DEFINE'):
                add('counted', [d], 'grow x1' if 'grow' in d else 'ping x1', list(range(1, 13)))
    iout = ctx.run_impl(cases, timeout_case=30)
    mout = ctx.run_model(cases, timeout_case=30)
    res.rule = {
        'C12': 'every pattern up to length %d (and a sample of length 3) over 5 slot kinds and 7 literal kinds, defined beside an accepted macro and used in the stream' % (2 if quick else 3),
    }.get(pid, 'thirteen macro families (priority ties, overlapping candidates, literal-text constraints, every slot kind, nested calls, multi-statement bodies, temporaries) '
               'x all streams up to length %d over 8-token vocabularies (sampled), random longer streams, self-reproducing sets; budgets 1..16 (and 1024)' % (4 if quick else 6)) + \
        '. Non-trivial = at least one rewriting step happened; distinct by (definitions, stream).'
    by_n = {}
    for cid, _ in cases:
        by_n.setdefault(meta[cid][4], []).append(cid)
    for k, cids in by_n.items():
        kind, defs, stream, _, _ = meta[cids[0]]
        res.evaluations += 1
        res.count(kind)
        case = {'defs': defs, 'stream': stream}
        outs = {}
        broken = False
        for cid in cids:
            il = iout[cid]
            if il == 'SKIPPED':
                broken = True
                continue
            if il.startswith(('CRASH', 'TIMEOUT', 'MEMLIMIT', 'MISSING')):
                res.violations.append(dict(case, what='crash', detail=il[:100], budget=meta[cid][3]))
                broken = True
                continue
            if mout is not None:
                res.compared += 1
                ml = mout[cid]
                if ml != il and not ml.startswith('TIMEOUT'):
                    if pid == 'C12' and ('Mmacro_non_lr' in il) != ('Mmacro_non_lr' in ml):
                        # usability IS conflict-freedom of the canonical LR(1) prefix construction, which the model computes
                        res.violations.append(dict(case, what='verdict', budget=meta[cid][3],
                                                   detail='pattern %s by the implementation, %s by the LR(1) prefix construction' % (
                                                       'rejected' if 'Mmacro_non_lr' in il else 'accepted', 'rejected' if 'Mmacro_non_lr' in ml else 'accepted')))
                    res.tie_broken.append(dict(case, what='implementation and model disagree (budget %s)' % meta[cid][3], impl=il[:500], model=ml[:500]))
            outs[meta[cid][3]] = il
        if broken:
            continue
        ex = parse_extract(outs[None])
        if ex is None:
            continue
        xtoks, xerrs, macros = ex
        budgets = sorted(b for b in outs if b is not None)
        ap = {b: parse_toks(outs[b]) for b in budgets}
        if any(v is None for v in ap.values()):
            continue
        flat = lambda ts: [(t[0], t[3]) for t in ts]
        if budgets and flat(ap[budgets[0]][0]) != flat(xtoks):
            res.nontrivial.add((tuple(defs), stream))
        non_lr = [e for e in ap[budgets[0]][1] if e.endswith('Mmacro_non_lr')] if budgets else []
        # ---------------- C12 ----------------
        if pid == 'C12' and kind == 'rejected_run':
            # every definition that is one of the known non-deterministic patterns is reported exactly once, at its own line,
            # and is never applied; the deterministic ones beside them are applied
            t4 = [vlib.unhex_s(t[3]) for t in ap[4][0]]
            want = sorted('7@6d:%d[' % (k + 1) for k, d in enumerate(defs) if not d.startswith(('DEFINE CLEAR', 'DEFINE GOOD')))
            got = sorted(e[:e.index('[') + 1] for e in non_lr)
            if got != want:
                res.violations.append(dict(case, what='report', detail='non-linear macros must be reported once each at lines %s; reported: %s' % (
                    [w[5:-1] for w in want], non_lr)))
            for word in ('TWICE', 'BUT', 'ALL', 'AGAIN', '['):
                if word not in t4:
                    res.violations.append(dict(case, what='applied', detail='a rejected macro was applied (%s disappeared from the stream)' % word))
                    break
            if 'fine' not in t4 or 'CLEAR' in t4:
                res.violations.append(dict(case, what='others', detail='a deterministic macro beside rejected ones was not applied'))
            res.count('rejected_run')
        elif pid == 'C12':
            pat = defs[0].split()[1:-4]
            t4 = flat(ap[4][0])
            hit = any(x == (1, vlib.hexs('hit')) for x in t4)
            fine = sum(1 for x in t4 if x == (1, vlib.hexs('fine')))
            rejected = len(non_lr) > 0
            must_reject = pat[-1] in ('<P>', '<ARGS>') or pat[-2:] in (['<P>', ';'], ['<ARGS>', ','])
            if must_reject and not rejected:
                res.violations.append(dict(case, what='accepted', detail='pattern %s must be rejected (open-ended / trailing separator)' % ' '.join(pat)))
            if rejected:
                res.count('rejected')
                if hit:
                    res.violations.append(dict(case, what='applied', detail='a rejected macro was applied'))
                if len(non_lr) != 1 or not non_lr[0].startswith('7@6d:1['):
                    res.violations.append(dict(case, what='report', detail='non-linear macro not reported once at its definition: %s' % non_lr))
            else:
                res.count('accepted')
                # an accepted pattern must be prefix-deterministic: no stream may match it in two ways from one start
                kinds = [t[0] for t in xtoks]
                ch = Chart(kinds)
                pm = macros[0]['rule'] if macros else []
                for i0 in range(len(xtoks)):
                    ways = []
                    for j0 in range(i0, len(xtoks) + 1):
                        ways += [(j0, tuple(rg)) for rg in match_pattern(ch, xtoks, pm, i0, j0)] if pm else []
                    if len(ways) > 1:
                        res.violations.append(dict(case, what='ambiguous', detail='accepted pattern %s matches the stream at token %d in %d ways' % (' '.join(pat), i0, len(ways))))
                        break
                if not hit:
                    res.violations.append(dict(case, what='not_applied', detail='accepted pattern %s did not match its own instance' % ' '.join(pat)))
            if rejected and fine != 2:
                res.violations.append(dict(case, what='others', detail='beside a rejected macro, the accepted one was applied %d times instead of 2' % fine))
            continue
        # ---------------- C09: one step against the brute-force matcher ----------------
        if pid == 'C09' and 1 in ap:
            usable = []
            bad_lines = set(int(e.split(':')[1].split('[')[0]) for e in non_lr)
            for m in macros:
                if m['rule'] and m['rule'][0][2] in bad_lines and any(e.split('@')[1].startswith('%s:%d[' % (m['rule'][0][1], m['rule'][0][2])) for e in non_lr):
                    continue
                usable.append(m)
            kinds = [t[0] for t in xtoks]
            ch = Chart(kinds)
            cands = []
            for mi, m in enumerate(usable):
                for i in range(len(xtoks)):
                    for j in range(i, len(xtoks) + 1):
                        for rg in match_pattern(ch, xtoks, m['rule'], i, j):
                            cands.append((m['prio'], i, j - i, mi, rg))
            got = flat(ap[1][0])
            if not cands:
                if got != flat(xtoks):
                    res.violations.append(dict(case, what='step', detail='the stream was rewritten although no pattern matches'))
            else:
                bp = max(c[0] for c in cands)
                bi = min(c[1] for c in cands if c[0] == bp)
                bl = max(c[2] for c in cands if c[0] == bp and c[1] == bi)
                best = [c for c in cands if (c[0], c[1], c[2]) == (bp, bi, bl)]
                exps = []
                for (_, i, ln, mi, rg) in best:
                    exps.append(flat(xtoks[:i]) + instantiate(usable[mi], xtoks, rg, 0) + flat(xtoks[i + ln:]))
                if got not in exps:
                    res.violations.append(dict(case, what='step', detail='after one step: %s; expected (priority %d, start %d, length %d): %s' % (
                        ' '.join(vlib.unhex_s(x[1]) for x in got)[:200], bp, bi, bl,
                        ' '.join(vlib.unhex_s(x[1]) for x in exps[0])[:200])))
                res.count('steps_checked')
        # ---------------- C11: budget bookkeeping ----------------
        if pid == 'C11':
            for b in budgets:
                err = any(e.endswith('Mmacro_max_passes') for e in ap[b][1])
                nxt = [c for c in budgets if c > b]
                if nxt:
                    c = nxt[0]
                    # rewriting still possible after b passes  =>  error reported at budget b
                    same = lambda x, y: re.sub(r'5f284d\d+29', '', ' '.join(t[3] for t in x)) == re.sub(r'5f284d\d+29', '', ' '.join(t[3] for t in y))
                    if not same(ap[b][0], ap[c][0]) and not err:
                        res.violations.append(dict(case, what='budget', budget=b, detail='expansion unfinished after %d passes but no too-many-substitutions error' % b))
                    if not err and any(e.endswith('Mmacro_max_passes') for e in ap[c][1]):
                        res.violations.append(dict(case, what='budget', budget=b, detail='finished at budget %d but error at budget %d' % (b, c)))
                # growth: at most b rewriting steps
                if len(ap[b][0]) > len(xtoks) + b * max([len(m['repl']) for m in macros] + [1]) * max(1, len(xtoks)) * 4:
                    res.violations.append(dict(case, what='growth', budget=b, detail='stream grew beyond the step bound'))
        if pid == 'C11' and kind == 'counted':
            for b in budgets:
                worst = -1
                for t_ in ap[b][0]:
                    nm_ = vlib.unhex_s(t_[3])
                    m_ = re.search(r'_\(M(\d+)\)$', nm_)
                    if t_[0] == 1 and nm_.startswith('#') and m_:
                        worst = max(worst, int(m_.group(1)))
                if worst >= b:
                    res.violations.append(dict(case, what='steps', budget=b, detail='with budget %d a temporary of pass %d is in the stream: more rewriting steps than the budget' % (b, worst)))
                    break
        # ---------------- C10: temporaries of a step are fresh ----------------
        if pid == 'C10':
            # provenance: a renamed temporary keeps the position of the #n token of its macro body, so equal names at
            # positions belonging to different macro definitions are temporaries of different expansion steps
            origin = {}
            for mi_, m_ in enumerate(macros):
                for t_ in m_['repl']:
                    if t_[0] == K['TEMP_VAL']:
                        origin[(t_[1], t_[2], vlib.unhex_s(t_[3]))] = mi_
            for b in budgets:
                owner = {}
                for t_ in ap[b][0]:
                    if t_[0] == 1 and t_[3].startswith('23'):
                        nm_ = vlib.unhex_s(t_[3])
                        o_ = origin.get((t_[1], t_[2], nm_.split(':')[0]))
                        if o_ is None:
                            continue
                        if nm_ in owner and owner[nm_] != o_:
                            res.violations.append(dict(case, what='shared', budget=b, detail='temporaries of two different macros (definitions %d and %d) both became %r' % (owner[nm_], o_, nm_)))
                            break
                        owner[nm_] = o_
            # budget 0 is the extracted stream itself (no pass taken), so the step of pass 0 is examined too
            prev = (0, [t[3] for t in xtoks if t[0] == 1 and t[3].startswith('23')], xtoks) if budgets and budgets[0] == 1 else None
            for b in budgets:
                names = [t[3] for t in ap[b][0] if t[0] == 1 and t[3].startswith('23')]
                if prev is not None and b == prev[0] + 1:
                    # the step taken at pass b-1: the names it introduces must be new — different from every temporary of every
                    # earlier step still in the stream.  A step that introduces temporaries makes the multiset of '#'-names grow;
                    # if the SET does not grow by as many distinct names as the body has distinct #n, two steps share a name.
                    before, after = prev[1], names
                    A = [(t[0], t[3]) for t in prev[2]]
                    B = [(t[0], t[3]) for t in ap[b][0]]
                    pre = 0
                    while pre < min(len(A), len(B)) and A[pre] == B[pre]:
                        pre += 1
                    suf = 0
                    while suf < min(len(A), len(B)) - pre and A[len(A) - 1 - suf] == B[len(B) - 1 - suf]:
                        suf += 1
                    removed = A[pre:len(A) - suf]
                    inserted = B[pre:len(B) - suf]
                    tmp = lambda l: set(x[1] for x in l if x[0] == 1 and x[1].startswith('23'))
                    fresh_names = tmp(inserted) - tmp(removed)          # introduced by #n of the body, not copied from a slot
                    clash = fresh_names & tmp(A[:pre] + A[len(A) - suf:])
                    if clash:
                        res.violations.append(dict(case, what='fresh', budget=b, detail='pass %d introduced temporary %r, which already names a temporary of an earlier step' % (
                            b - 1, vlib.unhex_s(sorted(clash)[0]))))
                    # equal n within the step: the names this step introduces for the '#n' tokens of one file of the body are
                    # one name per n (the body of a macro can be cut over included files; tokens are grouped by their file)
                    groups = {}
                    for t_ in ap[b][0][pre:len(B) - suf]:
                        if t_[0] == 1 and t_[3] in fresh_names:
                            groups.setdefault((vlib.unhex_s(t_[3]).split(':')[0], t_[1]), set()).add(t_[3])
                    for (n_, f_), g_ in sorted(groups.items()):
                        if len(g_) > 1:
                            res.violations.append(dict(case, what='same', budget=b, detail='pass %d turned the temporary %s of one macro body into different variables: %s' % (
                                b - 1, n_, ', '.join(sorted(vlib.unhex_s(x) for x in g_)))))
                            break
                    for nm in set(after):
                        s2 = vlib.unhex_s(nm)
                        if re.match(r'^[A-Za-z_][A-Za-z0-9_]*$', s2):
                            res.violations.append(dict(case, what='user', budget=b, detail='renamed temporary %r is a name a user can write' % s2))
                prev = (b, names, ap[b][0])
            # a renamed temporary can never be scanned as a user identifier: it starts with '#'
        if len(res.samples) < 3 and kind == 'random' and k % 37 == 0:
            res.sample({'defs': defs, 'stream': stream, 'after_1': ' '.join(vlib.unhex_s(t[3]) for t in ap[budgets[0]][0])[:200] if budgets else ''})
    if not res.samples and by_n:
        kind, defs, stream, _, _ = meta[by_n[0][0]]
        res.sample({'defs': defs, 'stream': stream})
