# vlib.py — shared machinery of the libtheo verification harness:
# building the implementation driver from /repo's working tree, building the Coq development and the
# extracted model driver, running case files through both, evidence / replay / known-findings files.
import hashlib, json, os, random, shutil, subprocess, sys, tempfile, time, fcntl, re
from concurrent.futures import ThreadPoolExecutor

VERIF = os.path.dirname(os.path.dirname(os.path.abspath(__file__)))
REPO = os.environ.get('THEO_REPO', '/repo')
CACHE = os.path.join(VERIF, '.cache')
COQ = os.path.join(VERIF, 'coq')
GUARD = 'THEO_VERIF_HOOKS'

REPO_SOURCES = [
    'Compiler/src/ast.cpp', 'Compiler/src/parse.cpp', 'Compiler/src/gen.cpp', 'Compiler/src/compiler.cpp',
    'Compiler/src/scan.cpp', 'Compiler/src/macro.cpp', 'Compiler/src/ParserGenerator/grammar.cpp',
    'Compiler/src/ParserGenerator/lrdea.cpp', 'Compiler/src/lex.yy.c',
    'VM/src/instr.cpp', 'VM/src/vm.cpp', 'VM/src/program.cpp',
]

VARIANT_FLAGS = {
    'plain': ['-O1', '-g0'],
    'asan': ['-O1', '-g', '-fsanitize=address,undefined', '-fno-sanitize-recover=all', '-fno-omit-frame-pointer'],
    'tsan': ['-O1', '-g', '-fsanitize=thread'],
    # development only (tools/coverage.py): line coverage of the repo's sources by the generated cases
    'cov': ['-O0', '-g', '--coverage', '-DVERIF_COVERAGE'],
}


def log(*a):
    print(*a, file=sys.stderr, flush=True)


def sh(cmd, **kw):
    return subprocess.run(cmd, stdout=subprocess.PIPE, stderr=subprocess.STDOUT, text=True, **kw)


class Lock:
    def __init__(self, name):
        os.makedirs(CACHE, exist_ok=True)
        self.path = os.path.join(CACHE, name + '.lock')

    def __enter__(self):
        self.f = open(self.path, 'w')
        fcntl.flock(self.f, fcntl.LOCK_EX)
        return self

    def __exit__(self, *a):
        fcntl.flock(self.f, fcntl.LOCK_UN)
        self.f.close()


def repo_files():
    out = []
    for root in ('Compiler', 'VM'):
        for d, _, fs in os.walk(os.path.join(REPO, root)):
            if '/test' in d:
                continue
            for f in fs:
                if f.endswith(('.cpp', '.hpp', '.h', '.c', '.l')):
                    out.append(os.path.join(d, f))
    return sorted(out)


def src_hash(extra=()):
    h = hashlib.sha256()
    for p in repo_files() + list(extra):
        h.update(p.encode())
        with open(p, 'rb') as f:
            h.update(f.read())
    return h.hexdigest()[:20]


def prune_cache(keep=4, min_age_s=6 * 3600):
    """drop old build directories, never one that was built or used in the last hours: a long check that runs beside
    other checks (several working trees, several tiers) must not lose its binaries"""
    try:
        now = time.time()
        ds = [os.path.join(CACHE, d) for d in os.listdir(CACHE) if d.startswith('impl-')]
        ds.sort(key=os.path.getmtime, reverse=True)
        for d in ds[keep:]:
            if now - os.path.getmtime(d) > min_age_s:
                shutil.rmtree(d, ignore_errors=True)
    except OSError:
        pass


def build_impl(variant='plain', driver='impl_driver.cpp', flexgen=False):
    """Compile /repo's working tree (hooks on) + driver into a cached binary; returns (path, error_text)."""
    drv = os.path.join(VERIF, 'driver', driver)
    key = src_hash([drv]) + ('-flexgen' if flexgen else '')
    outdir = os.path.join(CACHE, 'impl-' + key)
    exe = os.path.join(outdir, os.path.splitext(driver)[0] + '_' + variant)
    with Lock('build-' + variant + '-' + driver):
        if os.path.exists(exe):
            os.utime(outdir)
            return exe, None
        os.makedirs(outdir, exist_ok=True)
        if variant == 'cov':
            scratch = os.path.join(outdir, 'obj-cov')       # objects, .gcno and .gcda stay beside the binary
            shutil.rmtree(scratch, ignore_errors=True)
            os.makedirs(scratch)
        else:
            scratch = tempfile.mkdtemp(prefix='theo-obj.', dir='/var/tmp')
        try:
            flags = ['-std=c++20', '-I' + REPO, '-I' + os.path.join(REPO, 'Compiler/include'), '-D' + GUARD,
                     '-w'] + VARIANT_FLAGS[variant]
            incl_first = []
            sources = [os.path.join(REPO, s) for s in REPO_SOURCES]
            if flexgen:
                # regenerate the scanner now, into the scratch directory, shadowing the committed files
                gdir = os.path.join(scratch, 'gen', 'Compiler', 'include')
                os.makedirs(gdir)
                os.makedirs(os.path.join(scratch, 'gen', 'Compiler', 'src'))
                r = sh(['flex', '--outfile=' + os.path.join(scratch, 'gen/Compiler/src/lex.yy.c'),
                        '--header-file=' + os.path.join(gdir, 'lex.yy.h'), '--noline', '--nounistd',
                        os.path.join(REPO, 'Compiler/src/lexer.l')], cwd=os.path.join(REPO, 'Compiler'))
                if r.returncode != 0:
                    return None, 'flex failed:\n' + r.stdout
                incl_first = ['-I' + os.path.join(scratch, 'gen'), '-I' + gdir]
                sources = [s for s in sources if not s.endswith('lex.yy.c')] + [os.path.join(scratch, 'gen/Compiler/src/lex.yy.c')]
                # lexer.hpp includes "Compiler/include/lex.yy.h" relative to -I roots: ours comes first
            sources.append(drv)

            def cc(src):
                obj = os.path.join(scratch, hashlib.md5(src.encode()).hexdigest() + '.o')
                if variant == 'cov':
                    obj = os.path.join(scratch, os.path.basename(src).replace('.', '_') + '.o')
                r = sh(['g++', '-x', 'c++'] + incl_first + flags + ['-c', src, '-o', obj])
                return obj, r

            with ThreadPoolExecutor(16) as ex:
                res = list(ex.map(cc, sources))
            for obj, r in res:
                if r.returncode != 0:
                    return None, r.stdout[-4000:]
            r = sh(['g++'] + VARIANT_FLAGS[variant] + [o for o, _ in res] + ['-o', exe + '.tmp'])
            if r.returncode != 0:
                return None, r.stdout[-4000:]
            os.rename(exe + '.tmp', exe)
        finally:
            if variant != 'cov':
                shutil.rmtree(scratch, ignore_errors=True)
        prune_cache()
    return exe, None


# ---- Coq side ----------------------------------------------------------------------------------
def coq_make(targets, timeout=3000):
    """make the given .vo targets (full build, -k so one broken proof does not hide the others).
    Returns (ok, output)."""
    with Lock('coq'):
        if not os.path.exists(os.path.join(COQ, 'Makefile')):
            r = sh(['coq_makefile', '-f', '_CoqProject', '-o', 'Makefile'], cwd=COQ)
            if r.returncode != 0:
                return False, r.stdout
        r = sh(['timeout', str(timeout), 'make', '-k', '-j16'] + targets, cwd=COQ)
        return r.returncode == 0, r.stdout


_DEPS = None


def coq_depends(target, dep):
    """does coq/<target>.v depend (transitively) on coq/<dep>.v ?  (coqdep on the whole directory, cached)"""
    global _DEPS
    if _DEPS is None:
        _DEPS = {}
        files = sorted(f for f in os.listdir(COQ) if f.endswith('.v'))
        r = sh(['coqdep', '-Q', '.', 'Theo'] + files, cwd=COQ)
        for line in r.stdout.splitlines():
            if ':' not in line:
                continue
            lhs, rhs = line.split(':', 1)
            m = re.match(r'\s*(\w+)\.vo\b', lhs)
            if not m:
                continue
            _DEPS[m.group(1)] = set(x[:-3] for x in rhs.split() if x.endswith('.vo'))
    seen, todo = set(), [target]
    while todo:
        x = todo.pop()
        for d in _DEPS.get(x, ()):
            if d not in seen:
                seen.add(d)
                todo.append(d)
    return dep in seen


def build_model():
    """Extracted OCaml model driver; returns (path, error_text)."""
    ok, out = coq_make(['Extract.vo'])
    if not ok:
        return None, out[-4000:]
    exdir = os.path.join(COQ, 'extracted')
    drv = os.path.join(VERIF, 'ocaml', 'driver.ml')
    exe = os.path.join(CACHE, 'model_driver')
    with Lock('ocaml'):
        srcs = sorted(os.path.join(exdir, f) for f in os.listdir(exdir) if f.endswith(('.ml', '.mli'))) + [drv]
        stamp = hashlib.sha256(b''.join(s.encode() + open(s, 'rb').read() for s in srcs)).hexdigest()
        stampf = exe + '.stamp'
        if os.path.exists(exe) and os.path.exists(stampf) and open(stampf).read() == stamp:
            return exe, None
        scratch = tempfile.mkdtemp(prefix='theo-ml.', dir='/var/tmp')
        try:
            for s in srcs:
                shutil.copy(s, scratch)
            names = [os.path.basename(s) for s in srcs]
            r = subprocess.run(['ocamlfind', 'ocamldep', '-sort'] + names, cwd=scratch, stdout=subprocess.PIPE,
                               stderr=subprocess.PIPE, text=True)
            if r.returncode != 0:
                return None, r.stderr[-4000:]
            order = r.stdout.split()
            r = sh(['ocamlfind', 'ocamlopt', '-package', 'unix', '-linkpkg', '-O3', '-w', '-a'] + order + ['-o', 'model_driver'], cwd=scratch)
            if r.returncode != 0:
                return None, r.stdout[-4000:]
            os.makedirs(CACHE, exist_ok=True)
            shutil.copy(os.path.join(scratch, 'model_driver'), exe + '.tmp')
            os.rename(exe + '.tmp', exe)
            open(stampf, 'w').write(stamp)
        finally:
            shutil.rmtree(scratch, ignore_errors=True)
    return exe, None


# ---- running case files ---------------------------------------------------------------------------
def hexs(b):
    if isinstance(b, str):
        b = b.encode('latin-1')
    return b.hex() if b else '-'


def unhex(h):
    return b'' if h == '-' else bytes.fromhex(h)


def unhex_s(h):
    """hex field of a driver line -> text; '-' is the empty string; anything unreadable is shown as it is"""
    try:
        return '' if h in ('-', '') else bytes.fromhex(h).decode('latin-1')
    except ValueError:
        return '<%s>' % h


def files_fields(main, files):
    """<main> <k> (<name> <content>)^k ; files: dict name(bytes/str) -> content(bytes/str)"""
    out = [hexs(main), str(len(files))]
    for n in files:
        out += [hexs(n), hexs(files[n])]
    return ' '.join(out)


def run_cases(exe, cases, timeout_case=10, shards=16, env=None, total_timeout=3000):
    """cases: list of (id, text-after-id).  Returns dict id -> result line (without the id)."""
    if not cases:
        return {}
    scratch = tempfile.mkdtemp(prefix='theo-run.', dir='/var/tmp')
    try:
        shards = max(1, min(shards, len(cases)))
        chunks = [cases[i::shards] for i in range(shards)]

        def one(k):
            path = os.path.join(scratch, 'cases%d.txt' % k)
            with open(path, 'w') as f:
                for cid, txt in chunks[k]:
                    f.write('CASE %s %s\n' % (cid, txt))
            e = dict(os.environ)
            e['ASAN_OPTIONS'] = 'detect_leaks=1:abort_on_error=0:exitcode=77:allocator_may_return_null=1'
            e['UBSAN_OPTIONS'] = 'halt_on_error=1:exitcode=78'
            if env:
                e.update(env)
            try:
                r = subprocess.run([exe, path, str(timeout_case)], stdout=subprocess.PIPE, stderr=subprocess.PIPE,
                                   env=e, timeout=total_timeout)
                return r.stdout.decode('latin-1'), r.stderr.decode('latin-1')
            except subprocess.TimeoutExpired as ex:
                return (ex.stdout or b'').decode('latin-1'), 'TOTAL TIMEOUT'

        with ThreadPoolExecutor(shards) as ex:
            outs = list(ex.map(one, range(len(chunks))))
        res = {}
        errtxt = {}
        for out, err in outs:
            for line in out.split('\n'):
                if not line:
                    continue
                sp = line.split(' ', 1)
                res[sp[0]] = sp[1].rstrip() if len(sp) > 1 else ''
        for cid, _ in cases:
            if str(cid) not in res:
                res[str(cid)] = 'MISSING'
        return res
    finally:
        shutil.rmtree(scratch, ignore_errors=True)


def norm_outcome(line, side):
    """UB (model) == CRASH (impl); FUEL (model) == TIMEOUT/FUEL (impl)."""
    if line.startswith('CRASH') or line.startswith('UB') or ' UB:' in line:
        return 'UB'
    if line.startswith('TIMEOUT') or line.startswith('MEMLIMIT') or line.startswith('FUEL') or line.endswith('FUEL'):
        return 'FUEL'
    return line


# ---- evidence / replays / findings ------------------------------------------------------------------
def write_evidence(pid, tier, seed, coverage, wall, violations, assumptions):
    os.makedirs(os.path.join(VERIF, 'evidence'), exist_ok=True)
    ev = {'property_id': pid, 'tier': tier, 'seed': seed, 'level': 'proof', 'coverage': coverage,
          'assumptions': assumptions, 'wall_s': round(wall, 2), 'violations': violations}
    p = os.path.join(VERIF, 'evidence', pid + '.json')
    with open(p + '.tmp', 'w') as f:
        json.dump(ev, f, indent=1)
    os.rename(p + '.tmp', p)


def write_replay(pid, name, obj):
    d = os.path.join(VERIF, 'replays')
    os.makedirs(d, exist_ok=True)
    p = os.path.join(d, '%s_%s.json' % (pid, name))
    with open(p, 'w') as f:
        json.dump(obj, f, indent=1)
    return p


def known_findings():
    p = os.path.join(VERIF, 'known_findings.json')
    if not os.path.exists(p):
        return []
    return json.load(open(p))
