#!/bin/bash
# Runs libtheo's own test suite with the verification guard OFF (plain CMake build, no -DTHEO_VERIF_HOOKS)
# in a scratch directory outside /repo and /verif, then removes it.
set -u
REPO=${REPO:-/repo}
B=$(mktemp -d /var/tmp/theo-baseline.XXXXXX)
trap 'rm -rf "$B"' EXIT
cmake -G Ninja -S "$REPO" -B "$B" >"$B/cfg.log" 2>&1 || { cat "$B/cfg.log"; exit 2; }
cmake --build "$B" -j16 >"$B/build.log" 2>&1 || { tail -50 "$B/build.log"; exit 2; }
ctest --test-dir "$B" -j8 --timeout 900
