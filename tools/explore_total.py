# explore_total.py — exploration for C02 (compilation is total).  The malformed stream: absent main, empty files,
# truncations, token-level neighbours of valid programs, stray template tokens, numerals of any length, file maps with
# the hidden name.  Oracle on the implementation (ASan/UBSan build, leak check, timeout): returns normally; result is
# correct with no error, or incorrect with >= 1 error, each with a non-empty message and a location naming a supplied
# file (or the hidden file, or '-') with a line inside it.  Tie: verdict, error kinds and locations, file requests
# against the model (UB in the model = crash in the implementation).
import os, re, sys
sys.path.insert(0, os.path.dirname(os.path.abspath(__file__)))
import vlib, gen_prog

VOCAB = ['x0', 'y', 'f', '0', '1', '2147483647', '99999999999999999999', ':=', ':', ';', ',', '+', '-', '=', '!= 0', '(', ')',
         'LOOP', 'WHILE', 'DO', 'END', 'GOTO', 'IF', 'THEN', 'STOP', 'PROGRAM', 'IN', 'OUT', 'RUN', 'WITH', 'DEFINE', 'AS',
         'END DEFINE', 'PRIO', '<P>', '<V>', '<ID>', '<INT>', '<ARGS>', '$0', '$1', '$7', '#0', '#1', 'include', '"main.theo"', '"zz"', '@']
TOKRE = re.compile(r'"[^"]*"|!= 0|:=|END DEFINE|<[A-Za-z]+>|[$#]\d+|[A-Za-z_][A-Za-z_0-9]*|\d+|//[^\n]*|\S')
STD = '__standards__'
STD_LINES = 3


def tokens_of(text):
    return TOKRE.findall(text)


def neighbours(rng, text, k):
    toks = tokens_of(text)
    for _ in range(k):
        if not toks:
            toks = [rng.choice(VOCAB)]
            continue
        x = rng.random()
        i = rng.randrange(len(toks))
        if x < 0.3:
            del toks[i]
        elif x < 0.6:
            toks.insert(i, rng.choice(VOCAB))
        elif x < 0.85:
            toks[i] = rng.choice(VOCAB)
        else:
            j = rng.randrange(len(toks))
            toks[i], toks[j] = toks[j], toks[i]
    out = ''
    for t in toks:
        out += t + rng.choice([' ', ' ', '\n'])
    return out


def fixed_cases():
    C = []
    add = lambda files, main, tag: C.append((files, main, tag))
    add({}, 'm', 'absent_main')
    add({'other': 'x := 1'}, 'm', 'absent_main')
    for s in ('', ' ', '\n\n', '// c', '\t\n// only a comment\n'):
        add({'m': s}, 'm', 'blank')
    add({'m': 'x := RUN f WITH 3, END'}, 'm', 'trailing_comma')
    add({'m': 'x := RUN f WITH a, - 1 END'}, 'm', 'trailing_comma')
    add({'m': 'x := RUN f WITH a, ;'}, 'm', 'trailing_comma')
    add({'m': 'x := RUN f WITH a,'}, 'm', 'trailing_comma')
    add({'m': 'PROGRAM f DO x0 := 1 END x := RUN f WITH END'}, 'm', 'no_ports')
    add({'m': 'PROGRAM f OUT y DO x0 := 1 END'}, 'm', 'no_ports')
    add({'m': 'PROGRAM f IN DO END'}, 'm', 'no_ports')
    add({'m': 'x0 := x0 - 2147483648'}, 'm', 'range')
    add({'m': 'x0 := x0 + 2147483647; x1 := 2147483647; x2 := 2147483646'}, 'm', 'range')
    for d in (1, 5, 9, 10, 11, 18, 19, 20, 30):
        add({'m': 'x := ' + '9' * d + '; IF x = ' + '7' * d + ' THEN GOTO l; l: x := x + ' + '8' * d}, 'm', 'numeral')
        add({'m': 'DEFINE PRIO ' + '9' * d + ' foo AS x := 1 END DEFINE foo'}, 'm', 'numeral')
    for big in ('2147483647', '2147483648', '4294967295', '4294967296', '9223372036854775807', '99999999999999999999'):
        add({'m': 'DEFINE foo AS x := $%s END DEFINE foo' % big}, 'm', 'insertion_index')
        add({'m': 'DEFINE foo <V> AS x := $%s END DEFINE foo 3' % big}, 'm', 'insertion_index')
        add({'m': 'DEFINE foo <V> <V> AS x := $1 ; y := $%s END DEFINE foo 3 4; z := 1' % big}, 'm', 'insertion_index')
    # insertion indices at and around the number of slots, in macros that are APPLIED (numbering from $1 instead of $0)
    for k in (0, 1, 2, 3, 4):
        add({'m': 'DEFINE SWAP <ID> <ID> AS #0 := $1; $1 := $%d; $%d := #0 END DEFINE\na := 1;\nb := 2;\nSWAP a b' % (k, k)}, 'm', 'insertion_edge')
        add({'m': 'DEFINE one <V> AS x := $%d END DEFINE\none 3; one y' % k}, 'm', 'insertion_edge')
        add({'m': 'DEFINE none AS x := $%d END DEFINE\nnone' % k}, 'm', 'insertion_edge')
        add({'m': 'DEFINE three <ID> <INT> <V> AS $0 := $%d + $1 END DEFINE\nthree a 4 b' % k}, 'm', 'insertion_edge')
    add({'m': 'DEFINE foo RUN <ID> WITH <ARGS> END AS $0 := RUN $0 WITH END END DEFINE\nfoo x1 + 1'}, 'm', 'hidden_tokens')
    add({'m': 'DEFINE bar <V> AS RUN nosuch WITH $0 END END DEFINE\nx := bar y - 2'}, 'm', 'hidden_tokens')
    add({'m': 'DEFINE PRIO 2000000 <ID> + <INT> AS RUN nosuch WITH END END DEFINE\nx := y + 1'}, 'm', 'hidden_tokens')
    add({'m': 'DEFINE zap RUN <ID> WITH <ARGS> END AS GOTO $0 END DEFINE\nzap x1 + 1'}, 'm', 'hidden_tokens')
    add({'m': '$0 #1 <P> <ARGS> x := $3'}, 'm', 'stray')
    add({'m': 'x := <V>; #0 := 1'}, 'm', 'stray')
    dfn = 'DEFINE PRIO 3 IF <V> THEN <P> ELSE <P> FI AS #0 := $0 ; LOOP #0 DO $1 END ; $2 END DEFINE x := 1'
    toks = dfn.split(' ')
    for k in range(len(toks) + 1):
        add({'m': ' '.join(toks[:k])}, 'm', 'define_cut')
    add({'m': 'DEFINE DEFINE AS AS END DEFINE DEFINE AS x END DEFINE'}, 'm', 'define_odd')
    add({'m': 'DEFINE <P> AS $0 END DEFINE x := 1'}, 'm', 'non_lr')
    add({'m': 'DEFINE <P> ; AS $0 END DEFINE DEFINE f <V> AS RUN g WITH $0 END END DEFINE x := 1; y := f 2'}, 'm', 'non_lr')
    add({'m': 'DEFINE loop AS loop loop END DEFINE loop'}, 'm', 'max_passes')
    add({'m': 'x := 1', STD: 'DEFINE a AS b END DEFINE'}, 'm', 'hidden_name')
    add({'m': 'x := y + 1', STD: ''}, 'm', 'hidden_name')
    add({STD: 'x := 1'}, STD, 'hidden_name')
    add({'m': 'include "m" x := 1'}, 'm', 'include')
    add({'m': 'include "a" include "a" x := 1', 'a': 'y := 2;'}, 'm', 'include')
    add({'m': 'include'}, 'm', 'include')
    # include graphs: cycles through two and more files, a cycle that does not pass through the main file, diamonds,
    # chains with a missing link — the compilation must return, with the recursion and the missing file reported
    add({'m': 'x0 := 1; INCLUDE "u" x1 := 2', 'u': 'INCLUDE "m" y := 3'}, 'm', 'include_graph')
    add({'m': 'include "a"', 'a': 'include "b"', 'b': 'include "c" x := 1', 'c': 'include "a" y := 2'}, 'm', 'include_graph')
    add({'m': 'include "a" x := 1', 'a': 'include "b" y := 1', 'b': 'include "a" include "b" z := 1'}, 'm', 'include_graph')
    add({'m': 'include "a" include "b" x := 1', 'a': 'include "c"', 'b': 'include "c"', 'c': 'PROGRAM f DO x0 := 1 END'}, 'm', 'include_graph')
    add({'m': 'include "a" x := 1', 'a': 'include "nofile" include "m"'}, 'm', 'include_graph')
    add({'m': 'include "a"', 'a': 'include "a"'}, 'm', 'include_graph')
    add({'m': 'x := 1', 'a': 'include "b"', 'b': 'include "a"'}, 'm', 'include_graph')
    add({'m': 'x := 1\x00; y := 2'}, 'm', 'nul')
    add({'m': 'x := 1\r\ny := 2\r\n'}, 'm', 'crlf')
    add({'m': 'l: l: x := 1; GOTO l; GOTO nowhere'}, 'm', 'labels')
    add({'m': 'x := RUN g WITH 1 END; PROGRAM g IN a DO x0 := a END'}, 'm', 'order')
    return C


def loc_ok(files, main, f_hex, line):
    f = vlib.unhex_s(f_hex) if f_hex != '-' else ''
    if f == '-' and line == -1:
        return True
    if f == STD:
        content = files.get(STD) if False else None
        return 1 <= line <= STD_LINES
    if f not in files:
        return False
    text = files[f]
    nlines = text.count('\n') + 1
    # the include phrase is prepended to the main file on its first line: no extra line
    return 1 <= line <= nlines


def parse_compile(line):
    m = re.match(r'ok=(\d) errs=(\d+)(.*?) req=(\d+)(.*?) PROG', line)
    if not m:
        return None
    errs = m.group(3).split()
    reqs = m.group(5).split()
    return {'ok': m.group(1) == '1', 'nerr': int(m.group(2)), 'errs': errs, 'reqs': reqs}


def explore(ctx, res, replay=None):
    rng = ctx.rng
    quick = ctx.quick()
    inputs = []
    if replay and 'violation' in replay and 'source' in replay['violation']:
        v = replay['violation']['source']
        inputs.append((v['files'], v['main'], 'replay'))
    else:
        inputs += fixed_cases()
        nvalid = 30 if quick else 300
        valids = [gen_prog.ProgGen(rng, gen_prog.Opts(canonical=rng.random() < 0.5, user_macros=0.2 if k % 2 else 0, multi_file=0.2)).program()
                  for k in range(nvalid)]
        for files, main, _ in valids:
            text = files[main]
            toks = tokens_of(text)
            # every truncation at a token, and at bytes inside tokens
            step = max(1, len(toks) // (12 if quick else 60))
            for k in range(0, len(toks), step):
                f2 = dict(files)
                f2[main] = ' '.join(toks[:k])
                inputs.append((f2, main, 'truncate_token'))
            for _ in range(4 if quick else 20):
                cut = rng.randrange(len(text) + 1)
                f2 = dict(files)
                f2[main] = text[:cut]
                inputs.append((f2, main, 'truncate_byte'))
            for _ in range(40 if quick else 150):
                f2 = dict(files)
                f2[main] = neighbours(rng, text, rng.randint(1, 4))
                inputs.append((f2, main, 'neighbour'))
    cases = [('c%d' % i, 'compile ' + vlib.files_fields(m, f)) for i, (f, m, _) in enumerate(inputs)]
    iout = ctx.run_impl(cases, variant='asan', timeout_case=30)
    mout = ctx.run_model(cases, timeout_case=20)
    res.rule = ('the malformed stream: absent main, empty/blank files, every truncation of %d valid sources at token boundaries and random byte cuts, '
                '1-4 token deletions/insertions/replacements/swaps, stray template and insertion tokens, numerals of 1-30 digits, trailing comma, '
                'header without ports, DEFINE cut at every token, file maps containing the hidden name; compiled by the ASan/UBSan build with leak check. '
                'Non-trivial = rejected with at least one error; distinct by file contents.' % (30 if quick else 300))
    for i, (files, main, tag) in enumerate(inputs):
        res.evaluations += 1
        res.count(tag)
        il = iout['c%d' % i]
        case = {'source': {'files': files, 'main': main}, 'tag': tag}
        if il == 'SKIPPED':
            continue
        if il.startswith('MEMLIMIT'):
            # stopped after allocating more than a single case may use.  When the model of the same input runs out of its
            # own time as well (a macro that doubles the stream on every pass is allowed to: the bound is exponential in
            # the pass budget) nothing is decided; when the model finishes, the implementation did unbounded work
            ml0 = mout['c%d' % i] if mout is not None else 'TIMEOUT'
            if ml0.startswith(('TIMEOUT', 'FUEL')) or ml0.endswith('FUEL'):
                res.count('both_out_of_resources')
                res.skipped += 1
            else:
                res.violations.append(dict(case, what='memory', detail='the compilation was stopped after allocating more than the 3 GB a single case may use, on an input the model compiles within its budget: work not bounded by the input'))
            continue
        if il.startswith('TIMEOUT'):
            # expansion work is cubic in the stream length for self-reproducing macros: a slow case is re-run alone,
            # unsanitized, with a twenty-fold limit before it counts as a hang
            res.count('slow_rerun')
            il = ctx.run_impl([('c%d' % i, cases[i][1])], variant='plain', timeout_case=600)['c%d' % i]
            if il.startswith(('TIMEOUT', 'MEMLIMIT')):
                ml0 = mout['c%d' % i] if mout is not None else 'TIMEOUT'
                if ml0.startswith(('TIMEOUT', 'FUEL')) or ml0.endswith('FUEL'):
                    # the model of the same input is out of its budget too: an expansion whose size is exponential in the
                    # pass budget (a body that repeats a slot) is within the stated bound; nothing is decided
                    res.count('both_out_of_resources')
                    res.skipped += 1
                    continue
                res.violations.append(dict(case, what='hang', detail='no result within 600 s / 3 GB although the model compiles the input within its budget: ' + il[:60]))
                continue
        leak = il.endswith('LEAK')
        ip = parse_compile(il)
        if ip is None:
            res.violations.append(dict(case, what='crash', detail=il[:200]))
            continue
        if leak:
            res.violations.append(dict(case, what='leak', detail='memory leaked by this compilation (LeakSanitizer)'))
        if ip['ok'] and ip['nerr'] != 0 or (not ip['ok'] and ip['nerr'] == 0):
            res.violations.append(dict(case, what='shape', detail='generated_correctly=%s with %d errors' % (ip['ok'], ip['nerr'])))
        for e in ip['errs']:
            m = re.match(r'(-?\d+)@([0-9a-f-]+):(-?\d+):([EM])(\w+)$', e)
            if not m:
                res.violations.append(dict(case, what='shape', detail='unreadable error record ' + e))
                continue
            if m.group(4) == 'E':
                res.violations.append(dict(case, what='message', detail='error with an empty message: ' + e))
            if not loc_ok(files, main, m.group(2), int(m.group(3))):
                res.violations.append(dict(case, what='location', where='%s:%s' % (bytes.fromhex(m.group(2)).decode('latin-1') if m.group(2) != '-' else '', m.group(3)),
                                           detail='error located at %s:%s (%s), which is not a line of a supplied file' % (
                    bytes.fromhex(m.group(2)).decode('latin-1') if m.group(2) != '-' else '', m.group(3), m.group(5))))
        if not ip['ok']:
            res.nontrivial.add(str(sorted(files.items())))
        if mout is not None:
            ml = mout['c%d' % i]
            mp = parse_compile(ml)
            res.compared += 1
            if ml.startswith('TIMEOUT'):
                res.count('model_too_slow')
                res.skipped += 1
            elif mp is None:
                res.tie_broken.append(dict(case, what='model outcome: ' + ml[:80], impl=il[:300]))
            elif (mp['ok'], mp['errs'], mp['reqs']) != (ip['ok'], ip['errs'], ip['reqs']):
                res.tie_broken.append(dict(case, what='verdict / errors / requests differ', impl=il[:il.index(' PROG')][:400], model=ml[:ml.index(' PROG')][:400]))
        if len(res.samples) < 3 and tag == 'neighbour' and not ip['ok'] and i % 17 == 0:
            res.sample({'main': files[main][:200], 'errors': ip['errs'][:4]})
    # the known finding D11: recursion depth linear in the number of sequential statements
    if not replay:
        big = ';\n'.join('x := 1' for _ in range(30000))
        r = ctx.run_impl([('big', 'compile ' + vlib.files_fields('m', {'m': big}))], variant='plain', timeout_case=120)
        res.evaluations += 1
        res.count('deep_sequence')
        if not r['big'].startswith('ok=1'):
            res.violations.append({'what': 'stack_depth', 'input': '30000 sequential statements x := 1', 'detail': r['big'][:100]})
    if not res.samples and inputs:
        res.sample({'main': str(inputs[5][0])[:200]})
