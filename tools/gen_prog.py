# gen_prog.py — G-prog: grammar-directed generator of valid Theo sources (DESIGN.md §4.2).
# Every random choice comes from the random.Random instance handed in.
import random

KW = {
    'PROGRAM': ['PROGRAM', 'Program', 'program', 'PROG', 'Prog', 'prog'],
    'IN': ['IN', 'In', 'in'], 'OUT': ['OUT', 'Out', 'out'], 'DO': ['DO', 'do', 'Do'],
    'END': ['END', 'End', 'end'], 'LOOP': ['LOOP', 'Loop', 'loop'], 'WHILE': ['WHILE', 'While', 'while'],
    'GOTO': ['GOTO', 'Goto', 'goto'], 'IF': ['IF', 'If', 'if'], 'THEN': ['THEN', 'Then', 'then'],
    'STOP': ['STOP', 'Stop', 'stop'], 'RUN': ['RUN', 'Run', 'run'], 'WITH': ['WITH', 'With', 'with'],
}


MACRO_DEFS = ("DEFINE PRIO 5 <ID> ++ AS $0 := $0 + 1 END DEFINE\n"
              "DEFINE ZERO <ID> AS $0 := 0 END DEFINE\n"
              "DEFINE SWAP <ID> <ID> AS #0 := $0; $0 := $1; $1 := #0 END DEFINE\n"
              "DEFINE TWICE <P> ENDTWICE AS $0; $0 END DEFINE\n")


class Opts:
    def __init__(self, **kw):
        self.max_defs = 3
        self.max_depth = 3
        self.max_stmts = 4
        self.p_goto = 0.35       # share of programs that use labels/GOTO/IF
        self.p_call = 0.6
        self.p_stop = 0.1
        self.p_while = 0.5
        self.canonical = True    # one statement per line
        self.multi_file = 0.3
        self.spell_mix = 0.3
        self.big_consts = 0.0    # share of constants near 2^31
        self.allow_diverge = 0.1
        self.user_macros = 0.0
        self.split_text = 0.0
        self.share_lines = 0.0   # a definition's END, an include and the next header on one line
        self.__dict__.update(kw)


class ProgGen:
    def __init__(self, rng, opts=None):
        self.r = rng
        self.o = opts or Opts()

    def kw(self, k):
        if self.r.random() < self.o.spell_mix:
            return self.r.choice(KW[k])
        return KW[k][0]

    def const(self):
        if self.r.random() < self.o.big_consts:
            return str(self.r.choice([2147483646, 2147483645, 2147483000, 1073741824, 2000000000, 1 << 30]))
        return str(self.r.choice([0, 0, 1, 1, 1, 2, 2, 3, 4, 5, 7]))

    def var(self, scope):
        return self.r.choice(scope['vars'])

    def value(self, scope, depth=0):
        x = self.r.random()
        if x < 0.25:
            return [self.var(scope)]
        if x < 0.45:
            return [self.const()]
        if x < 0.62:
            return [self.var(scope), '+', self.const()]
        if x < 0.78:
            return [self.var(scope), '-', self.const()]
        if scope['funcs'] and self.r.random() < self.o.p_call and depth < 2:
            f, arity = self.r.choice(scope['funcs'])
            out = [self.kw('RUN'), f, self.kw('WITH')]
            for i in range(arity):
                if i:
                    out.append(',')
                out += self.value(scope, depth + 1)
            out.append(self.kw('END'))
            scope['uses_call'] = True
            return out
        return [self.var(scope)]

    # a statement is a list of "lines", each line a list of tokens; nesting handled by indentation-free lines
    def stmts(self, scope, depth, n=None):
        n = n if n is not None else self.r.randint(1, self.o.max_stmts)
        out = []   # list of statements; statement = list of lines
        for _ in range(n):
            out.append(self.stmt(scope, depth))
        return out

    def stmt(self, scope, depth):
        x = self.r.random()
        if depth < self.o.max_depth and x < 0.22:
            v = self.var(scope)
            body = self.stmts(scope, depth + 1, self.r.randint(1, 3))
            return ('loop', v, body)
        if depth < self.o.max_depth and x < 0.22 + 0.15 * self.o.p_while * 2:
            v = self.var(scope)
            body = self.stmts(scope, depth + 1, self.r.randint(1, 2))
            diverge = self.r.random() < self.o.allow_diverge
            if not diverge:
                body.append(('assign', v, [v, '-', '1']))
            scope['uses_while'] = True
            return ('while', v, body)
        if scope['goto'] and x < 0.62:
            return self.goto_stmt(scope)
        if self.o.user_macros and self.r.random() < self.o.user_macros:
            self.used_macros = True
            y = self.r.random()
            v, w = self.var(scope), self.var(scope)
            if y < 0.3:
                return ('macro', ['ZERO %s' % v])
            if y < 0.6:
                return ('macro', ['%s ++' % v])
            if y < 0.8 and v != w:
                return ('macro', ['SWAP %s %s' % (v, w)])
            return ('macro', ['TWICE %s := %s + 1 ENDTWICE' % (v, v)])
        if x > 1 - self.o.p_stop * 0.3:
            return ('stop',)
        return ('assign', self.var(scope), self.value(scope))

    def goto_stmt(self, scope):
        scope['uses_goto'] = True
        x = self.r.random()
        labs = scope['labels']
        if x < 0.35 or not labs:
            # declare a fresh label in front of a simple statement
            l = 'L%d' % len(labs)
            labs.append(l)
            return ('label', l, ('assign', self.var(scope), self.value(scope)))
        if x < 0.75:
            return ('ifgoto', self.var(scope), self.const(), self.r.choice(labs + ['L%d' % (len(labs))] if self.r.random() < 0.5 else labs))
        return ('goto', self.r.choice(labs))

    def body(self, scope, depth=0):
        ss = self.stmts(scope, depth)
        # make sure every label that is jumped to exists: declare pending ones at the end
        used = set()

        def walk(s):
            if s[0] in ('ifgoto',):
                used.add(s[3])
            elif s[0] == 'goto':
                used.add(s[1])
            elif s[0] in ('loop', 'while'):
                for t in s[2]:
                    walk(t)
            elif s[0] == 'label':
                walk(s[2])
        declared = set()

        def decl(s):
            if s[0] == 'label':
                declared.add(s[1])
                decl(s[2])
            elif s[0] in ('loop', 'while'):
                for t in s[2]:
                    decl(t)
        for s in ss:
            walk(s)
            decl(s)
        for l in sorted(used - declared):
            ss.append(('label', l, ('assign', self.var(scope), [self.var(scope)])))
        return ss

    def render_stmt(self, s, lines, ind, last):
        """append source lines for statement s; `last` tells whether a ';' follows"""
        sep = '' if last else ';'
        pad = '  ' * ind
        if s[0] == 'assign':
            lines.append(pad + '%s := %s%s' % (s[1], ' '.join(s[2]), sep))
        elif s[0] == 'stop':
            lines.append(pad + self.kw('STOP') + sep)
        elif s[0] == 'macro':
            lines.append(pad + s[1][0] + sep)
        elif s[0] == 'goto':
            lines.append(pad + '%s %s%s' % (self.kw('GOTO'), s[1], sep))
        elif s[0] == 'ifgoto':
            lines.append(pad + '%s %s = %s %s %s %s%s' % (self.kw('IF'), s[1], s[2], self.kw('THEN'), self.kw('GOTO'), s[3], sep))
        elif s[0] == 'label':
            if self.o.canonical and self.r.random() < 0.5:
                lines.append(pad + s[1] + ':')
                self.render_stmt(s[2], lines, ind, last)
            else:
                tmp = []
                self.render_stmt(s[2], tmp, 0, last)
                lines.append(pad + s[1] + ': ' + tmp[0])
                lines.extend(tmp[1:])
        elif s[0] == 'loop':
            lines.append(pad + '%s %s %s' % (self.kw('LOOP'), s[1], self.kw('DO')))
            self.render_body(s[2], lines, ind + 1)
            lines.append(pad + self.kw('END') + sep)
        elif s[0] == 'while':
            lines.append(pad + '%s %s != 0 %s' % (self.kw('WHILE'), s[1], self.kw('DO')))
            self.render_body(s[2], lines, ind + 1)
            lines.append(pad + self.kw('END') + sep)

    def render_body(self, ss, lines, ind):
        for i, s in enumerate(ss):
            self.render_stmt(s, lines, ind, i == len(ss) - 1)

    def program(self):
        """returns (files, main, meta)"""
        r = self.r
        ndefs = r.randint(0, self.o.max_defs)
        funcs = []
        chunks = []   # list of (kind, lines)
        meta = {'defs': ndefs, 'goto': False, 'call': False, 'while': False, 'stop': False}
        use_goto = r.random() < self.o.p_goto
        for d in range(ndefs):
            name = r.choice(['f', 'g', 'h', 'add', 'p%d' % d]) if r.random() < 0.7 else 'f'
            arity = r.choice([0, 1, 1, 2, 2, 3])
            params = []
            pool = ['a', 'b', 'c', 'n', 'x0', 'x1']
            r.shuffle(pool)
            params = pool[:arity]
            out = None
            if r.random() < 0.6:
                out = r.choice(params + ['x0', 'res', 'y']) if params else r.choice(['x0', 'res'])
            vars_ = list(dict.fromkeys(params + ['x0', 'x1', 'y'] + ([out] if out else [])))
            scope = {'vars': vars_, 'funcs': list(funcs), 'goto': use_goto and r.random() < 0.6, 'labels': []}
            body = self.body(scope)
            lines = []
            hdr = '%s %s' % (self.kw('PROGRAM'), name)
            if arity > 0:
                hdr += ' %s %s' % (self.kw('IN'), ', '.join(params))
                if out:
                    hdr += ' %s %s' % (self.kw('OUT'), out)
            hdr += ' ' + self.kw('DO')
            lines.append(hdr)
            self.render_body(body, lines, 1)
            lines.append(self.kw('END'))
            chunks.append(lines)
            funcs = [(n_, a_) for (n_, a_) in funcs if n_ != name] + [(name, arity)]
            for k in ('uses_goto', 'uses_call', 'uses_while'):
                if scope.get(k):
                    meta[k[5:]] = True
        scope = {'vars': ['x0', 'x1', 'x2', 'x3'], 'funcs': list(funcs), 'goto': use_goto, 'labels': []}
        body = self.body(scope)
        lines = []
        self.render_body(body, lines, 0)
        chunks.append(lines)
        for k in ('uses_goto', 'uses_call', 'uses_while'):
            if scope.get(k):
                meta[k[5:]] = True
        # layout
        if not self.o.canonical:
            chunks = [self.scramble(c) for c in chunks]
        files = {}
        if self.o.share_lines and len(chunks) >= 2:
            # END of one definition, an include of a file with tokens of its own, and the next header (or the first
            # main statement) share one line: the text leaves the line and comes back to it
            merged = [chunks[0]]
            for ci in range(1, len(chunks)):
                prev = merged[-1]
                if r.random() < self.o.share_lines and len(prev) >= 2 and chunks[ci]:
                    fn = 'mid%d.theo' % ci
                    files[fn] = r.choice(['PROGRAM z%d IN q DO\n  x0 := q\nEND\n' % ci, '// nothing but a comment\n', 'PROGRAM z%d IN q DO x0 := q END' % ci])
                    tail = prev[-2].rstrip() + ' ' + prev[-1].strip() + ' include "%s" ' % fn + chunks[ci][0].strip()
                    merged[-1] = prev[:-2] + [tail] + chunks[ci][1:]
                    meta['shared_line'] = True
                else:
                    merged.append(chunks[ci])
            chunks = merged
        main_lines = []
        if ndefs and r.random() < self.o.multi_file:
            # put some definitions into included files
            for i, c in enumerate(chunks[:-1]):
                if r.random() < 0.6:
                    fn = 'lib%d.theo' % i
                    files[fn] = '\n'.join(c) + '\n'
                    main_lines.append('%s "%s"' % (r.choice(['include', 'INCLUDE', 'Include']), fn))
                else:
                    main_lines += c
            main_lines += chunks[-1]
        else:
            for c in chunks:
                main_lines += c
        if getattr(self, 'used_macros', False):
            defs = MACRO_DEFS
            if r.random() < 0.5:
                files['macros.theo'] = defs
                main_lines = ['include "macros.theo"'] + main_lines
            else:
                main_lines = defs.rstrip('\n').split('\n') + main_lines
            meta['macros'] = True
            self.used_macros = False
        text = '\n'.join(main_lines) + ('\n' if r.random() < 0.8 else '')
        if getattr(self.o, 'split_text', 0) and r.random() < self.o.split_text:
            # cut the text at arbitrary token boundaries into included files (constructs spread over files)
            lines_ = text.split('\n')
            k0 = max([i + 1 for i, l in enumerate(lines_) if l.lstrip().lower().startswith(('define', 'include'))] + [0])
            head, body = '\n'.join(lines_[:k0]), '\n'.join(lines_[k0:])
            words = body.split(' ')
            if len(words) > 6:
                a = r.randrange(1, len(words) - 3)
                b = r.randrange(a + 1, len(words) - 1)
                files['part.theo'] = ' '.join(words[a:b])
                text = (head + '\n' if head else '') + ' '.join(words[:a]) + ' include "part.theo" ' + ' '.join(words[b:])
                meta['split'] = True
        files['main.theo'] = text
        meta['files'] = len(files)
        return files, 'main.theo', meta

    def scramble(self, lines):
        """arbitrary layout: join lines, add blank lines and comments"""
        out = []
        cur = ''
        dense = self.r.random() < 0.35      # whole constructs on one line: nested headers share a line
        for l in lines:
            x = self.r.random()
            if x < (0.92 if dense else 0.45) and cur:
                cur += ' ' + l.strip()
            else:
                if cur:
                    out.append(cur)
                cur = l
            if self.r.random() < 0.1:
                out.append(cur + ' // note')
                cur = ''
            if self.r.random() < 0.08:
                out.append(cur)
                out.append('')
                cur = ''
        if cur:
            out.append(cur)
        return [l for l in out]


def small_programs():
    """three fixed small programs for the exhaustive history exploration"""
    p1 = "x0 := 2;\nx1 := x0 + 1;\nLOOP x0 DO\n  x1 := x1 + 1\nEND;\nx2 := x1\n"
    p2 = ("PROGRAM f IN a OUT r DO\n  r := a + 1;\n  r := r + 1\nEND\n"
          "x0 := RUN f WITH 3 END;\nx1 := RUN f WITH x0 END; x2 := x1\n")
    p3 = ("x0 := 3;\nl: x0 := x0 - 1;\nIF x0 = 0 THEN GOTO e;\nGOTO l;\ne: STOP\n")
    return [({'main.theo': p1}, 'main.theo'), ({'main.theo': p2}, 'main.theo'), ({'main.theo': p3}, 'main.theo')]


def extra_programs():
    """fixed programs for shapes the random generator produces rarely: many parameters, calls as arguments of calls,
    STOP with pending calls, redefinition, an OUT parameter that is also an IN parameter, sugar on parameters"""
    P = []
    P.append("PROGRAM wide IN a, b, c, d, e, f, g, h, i OUT r DO\n  r := a;\n  r := r + 1;\n  LOOP i DO\n    r := r + 2\n  END;\n  i := h - 3\nEND\n"
             "PROGRAM one IN q DO\n  x0 := q + 1\nEND\n"
             "x := RUN wide WITH 1, 2, 3, 4, 5, 6, 7, 8, 2 END;\n"
             "y := RUN wide WITH x, RUN one WITH x END, 3, RUN one WITH RUN one WITH 4 END END, 5, 6, 7, 8, 1 END;\nz := y - 1\n")
    P.append("PROGRAM keep IN a, b OUT b DO\n  b := b + 1\nEND\nPROGRAM first IN a, b OUT a DO\n  a := a + b\nEND\n"
             "u := 3;\nLOOP u DO\n  v := RUN keep WITH v, v END;\n  w := RUN first WITH w, v END\nEND\n")
    P.append("PROGRAM inner IN a OUT r DO\n  r := a + 1;\n  STOP\nEND\nPROGRAM outer IN b OUT s DO\n  t := b + 2;\n  s := RUN inner WITH t END\nEND\n"
             "x0 := 5;\nx1 := RUN outer WITH x0 END;\nx2 := 7\n")
    P.append("PROGRAM f IN a DO\n  x0 := a + 1\nEND\nPROGRAM g IN a DO\n  x0 := RUN f WITH a END\nEND\nPROGRAM f IN a DO\n  b := a;\n  c := b;\n  x0 := c + 10\nEND\n"
             "p := RUN g WITH 1 END;\nq := RUN f WITH 1 END\n")
    P.append("PROGRAM cnt IN n OUT k DO\n  again: k := k + 1;\n  IF k = 5 THEN GOTO done;\n  GOTO again;\n  done: n := 0\nEND\n"
             "a := RUN cnt WITH 9 END;\nIF a = 5 THEN GOTO ok;\nb := 1;\nok: c := a\n")
    P.append("x := 2;\ny := 7;\nIF x = 5 THEN GOTO skip;\nz := 1;\nskip: w := 1;\nIF y = 7 THEN GOTO end;\nw := 2;\nend: v := w\n")
    return [({'main.theo': t}, 'main.theo') for t in P]
