#!/usr/bin/env python3
# coverage.py — development helper (not run by the checks): how much of /repo's code do the generated cases of the
# correspondence checks execute?  Builds the implementation driver with --coverage, runs the quick tier of the given
# properties (default: all) with that build, then reads line coverage of every file under /repo with gcov.
# Writes coverage/summary.json and coverage/uncovered.txt.  Leaves evidence files untouched (VERIF_SKIP_EVIDENCE).
import glob, json, os, re, shutil, subprocess, sys, tempfile
VERIF = os.path.dirname(os.path.dirname(os.path.abspath(__file__)))
sys.path.insert(0, os.path.join(VERIF, 'tools'))
import vlib

props = sys.argv[1:] or ['C%02d' % i for i in range(1, 21)]
env = dict(os.environ, VERIF_FORCE_VARIANT='cov', VERIF_SKIP_EVIDENCE='1')
exe, err = vlib.build_impl('cov')
if exe is None:
    sys.exit(err)
objdir = os.path.join(os.path.dirname(exe), 'obj-cov')
for f in glob.glob(os.path.join(objdir, '*.gcda')):
    os.remove(f)
for p in props:
    r = subprocess.run([os.path.join(VERIF, 'check'), p, '--tier', 'quick'], cwd=VERIF, env=env, stdout=subprocess.PIPE, stderr=subprocess.STDOUT, text=True)
    print(p, 'exit', r.returncode, ' '.join(l for l in r.stdout.splitlines() if l.startswith(('VIOLATION', 'KNOWN')))[:160], flush=True)
tmp = tempfile.mkdtemp(prefix='theo-gcov.', dir='/var/tmp')
lines = {}      # file -> {lineno: count}
try:
    for gcno in sorted(glob.glob(os.path.join(objdir, '*.gcno'))):
        subprocess.run(['gcov', '-p', '-l', '-o', objdir, gcno], cwd=tmp, stdout=subprocess.DEVNULL, stderr=subprocess.DEVNULL)
    for g in glob.glob(os.path.join(tmp, '*.gcov')):
        src = None
        for l in open(g, errors='replace'):
            m = re.match(r'\s*([^:]+):\s*(\d+):(.*)$', l)
            if not m:
                continue
            cnt, no, text = m.group(1).strip(), int(m.group(2)), m.group(3)
            if no == 0:
                if text.startswith('Source:'):
                    src = os.path.normpath(os.path.join(vlib.REPO, text[7:])) if not text[7:].startswith('/') else os.path.normpath(text[7:])
                continue
            if src is None or not src.startswith(vlib.REPO + '/') or cnt == '-':
                continue
            c = 0 if cnt.startswith(('#', '=')) else int(re.sub(r'\D', '', cnt) or 0)
            d = lines.setdefault(src, {})
            d[no] = max(d.get(no, 0), c)
finally:
    shutil.rmtree(tmp, ignore_errors=True)
out = os.path.join(VERIF, 'coverage')
os.makedirs(out, exist_ok=True)
summary = {}
unc = []
for src in sorted(lines):
    d = lines[src]
    tot, hit = len(d), sum(1 for v in d.values() if v > 0)
    rel = os.path.relpath(src, vlib.REPO)
    summary[rel] = {'lines': tot, 'covered': hit, 'percent': round(100.0 * hit / tot, 1) if tot else 100.0}
    text = open(src, errors='replace').read().split('\n')
    for no in sorted(k for k, v in d.items() if v == 0):
        unc.append('%s:%d: %s' % (rel, no, text[no - 1].strip()[:110] if no - 1 < len(text) else ''))
json.dump({'properties_run': props, 'files': summary}, open(os.path.join(out, 'summary.json'), 'w'), indent=1)
open(os.path.join(out, 'uncovered.txt'), 'w').write('\n'.join(unc) + '\n')
for k, v in summary.items():
    print('%-50s %4d/%4d  %5.1f%%' % (k, v['covered'], v['lines'], v['percent']))
