# explore_accept.py — exploration for C04 (the compiler accepts exactly the programs of the language).
# Oracle: an independent recogniser of the documented LL(1) grammar with the static rules (callee complete earlier,
# arity, built-in __INC__/__DEC__, jump targets are labels of the same body, literals < 2^31-1), applied to the token
# stream of the specification scanner after the id+int / id-int sugar.  Sources with user macros, duplicate labels or
# duplicate parameters are outside the quantifier and skipped.  Tie: verdict and error kinds against the model.
import os, re, sys
sys.path.insert(0, os.path.dirname(os.path.abspath(__file__)))
import vlib, gen_prog
from explore_total import neighbours, parse_compile

(ID, NV_ID, INT, ARGSEP, PROGSEP, LABELDEC, ASSIGN, NEQ_ZERO, EQ, DO, LOOP, WHILE, GOTO, IF, THEN, STOP, END, PROGRAM, IN, OUT, DEFINE, RUN, WITH, EOF) = \
    (1, 2, 3, 6, 7, 8, 9, 10, 11, 12, 13, 14, 15, 16, 17, 18, 19, 20, 21, 22, 25, 36, 37, 0)
LIMIT = 2147483647


class Reject(Exception):
    pass


class Outside(Exception):
    """outside the property's quantifier (duplicate label / parameter)"""
    pass


def desugar(toks):
    out = []
    i = 0
    n = 0
    while i < len(toks):
        if i + 2 < len(toks) and toks[i][0] == ID and toks[i + 1][0] == NV_ID and toks[i + 1][1] in ('+', '-') and toks[i + 2][0] == INT:
            name = '__INC__' if toks[i + 1][1] == '+' else '__DEC__'
            out += [(RUN, 'RUN'), (ID, name), (WITH, 'WITH'), toks[i], (ARGSEP, ','), toks[i + 2], (END, 'END')]
            i += 3
            n += 1
        else:
            out.append(toks[i])
            i += 1
    return out, n


class Spec:
    def __init__(self, toks):
        self.t = toks
        self.p = 0
        self.defined = {}

    def la(self):
        return self.t[self.p][0]

    def eat(self, k):
        if self.la() != k:
            raise Reject('expected %d at %d' % (k, self.p))
        tok = self.t[self.p]
        self.p += 1
        return tok

    def program(self):
        while self.la() == PROGRAM:
            self.eat(PROGRAM)
            name = self.eat(ID)[1]
            params = []
            if self.la() == IN:
                self.eat(IN)
                params.append(self.eat(ID)[1])
                while self.la() == ARGSEP:
                    self.eat(ARGSEP)
                    params.append(self.eat(ID)[1])
                if self.la() == OUT:
                    self.eat(OUT)
                    self.eat(ID)
            if len(set(params)) != len(params):
                raise Outside('duplicate parameter')
            self.eat(DO)
            self.body()
            self.eat(END)
            self.defined[name] = len(params)      # complete only now
        self.body()
        self.eat(EOF)

    def body(self):
        self.labels = set()
        self.refs = set()
        saved = (self.labels, self.refs)
        self.P()
        labels, refs = saved
        if not refs <= labels:
            raise Reject('unknown mark')

    def P(self):
        k = self.la()
        if k == ID:
            name = self.eat(ID)[1]
            if self.la() == ASSIGN:
                self.eat(ASSIGN)
                self.value()
            elif self.la() == LABELDEC:
                self.eat(LABELDEC)
                if name in self.labels:
                    raise Outside('duplicate label')
                self.labels.add(name)
                self.P()
            else:
                raise Reject('expected := or :')
        elif k == LOOP:
            self.eat(LOOP); self.eat(ID); self.eat(DO); self.P(); self.eat(END)
        elif k == WHILE:
            self.eat(WHILE); self.eat(ID); self.eat(NEQ_ZERO); self.eat(DO); self.P(); self.eat(END)
        elif k == GOTO:
            self.eat(GOTO); self.refs.add(self.eat(ID)[1])
        elif k == IF:
            self.eat(IF); self.eat(ID); self.eat(EQ); self.literal(self.eat(INT)); self.eat(THEN); self.eat(GOTO); self.refs.add(self.eat(ID)[1])
        elif k == STOP:
            self.eat(STOP)
        else:
            raise Reject('expected statement')
        if self.la() == PROGSEP:
            self.eat(PROGSEP)
            self.P()

    def literal(self, tok):
        if int(tok[1]) >= LIMIT:
            raise Reject('literal out of range')

    def value(self):
        k = self.la()
        if k == ID:
            self.eat(ID)
            return 'id'
        if k == INT:
            self.literal(self.eat(INT))
            return 'int'
        if k == RUN:
            self.eat(RUN)
            name = self.eat(ID)[1]
            self.eat(WITH)
            shapes = []
            if self.la() in (ID, INT, RUN):
                shapes.append(self.value())
                while self.la() == ARGSEP:
                    self.eat(ARGSEP)
                    shapes.append(self.value())
            self.eat(END)
            if name in ('__INC__', '__DEC__') and shapes == ['id', 'int']:
                return 'call'
            if name not in self.defined or self.defined[name] != len(shapes):
                raise Reject('unknown program or arity')
            return 'call'
        raise Reject('expected value')


IDS = ['x0', 'x1', 'y', 'a', 'b', 'f', 'g', 'L0', 'L1', 'res', 'n']
INTS = ['0', '1', '2', '7', '2147483646', '2147483647', '99999999999']
SPELL = [['LOOP', 'Loop', 'loop'], ['WHILE', 'While', 'while'], ['DO', 'do', 'Do'], ['END', 'End', 'end'], ['GOTO', 'Goto', 'goto'], ['IF', 'If', 'if'],
         ['THEN', 'Then', 'then'], ['STOP', 'Stop', 'stop'], ['PROGRAM', 'Program', 'program', 'PROG', 'Prog', 'prog'], ['IN', 'In', 'in'],
         ['OUT', 'Out', 'out'], ['RUN', 'Run', 'run'], ['WITH', 'With', 'with']]


def mild_neighbours(rng, text, k):
    """edits that often keep the source inside the language: same-class replacements, respelling, separators"""
    from explore_total import tokens_of
    toks = tokens_of(text)
    for _ in range(k):
        if not toks:
            break
        i = rng.randrange(len(toks))
        t = toks[i]
        x = rng.random()
        if re.match(r'^[A-Za-z_]\w*$', t) and not any(t in g for g in SPELL):
            toks[i] = rng.choice(IDS) if x < 0.8 else rng.choice(INTS)
        elif t.isdigit():
            toks[i] = rng.choice(INTS) if x < 0.8 else rng.choice(IDS)
        elif any(t in g for g in SPELL):
            g = next(g for g in SPELL if t in g)
            toks[i] = rng.choice(g) if x < 0.7 else rng.choice(rng.choice(SPELL))
        elif x < 0.12 and len(toks) > 4:
            # drop a short run of tokens (an entire statement, a body, a header part)
            n_ = rng.randint(1, 5)
            del toks[i:i + n_]
        elif t == ';':
            if x < 0.5:
                del toks[i]
            else:
                toks.insert(i, ';')
        elif t in ('+', '-'):
            toks[i] = rng.choice(['+', '-'])
        else:
            if x < 0.5:
                toks.insert(i, rng.choice([';', ',', 'x0', '1']))
    out = ''
    for t in toks:
        out += t + rng.choice([' ', ' ', '\n'])
    return out


def spec_accepts(toks):
    """toks: [(kind, text)] ending with EOF.  True / False / None (outside the quantifier)"""
    if any(k == DEFINE for k, _ in toks):
        return None
    d, n = desugar(toks)
    if n >= 1024:
        return None
    sys.setrecursionlimit(20000)
    try:
        Spec(d).program()
        return True
    except Reject:
        return False
    except Outside:
        return None
    except (IndexError, RecursionError):
        return False


def explore(ctx, res, replay=None):
    rng = ctx.rng
    quick = ctx.quick()
    inputs = []
    if replay and 'violation' in replay and 'source' in replay['violation']:
        v = replay['violation']['source']
        inputs.append((v['files'], v['main'], 'replay'))
    else:
        nvalid = 60 if quick else 1500
        for k in range(nvalid):
            files, main, meta = gen_prog.ProgGen(rng, gen_prog.Opts(canonical=rng.random() < 0.5, spell_mix=0.6, multi_file=0.2, max_defs=3)).program()
            inputs.append((files, main, 'valid'))
            for _ in range(50 if quick else 60):
                f2 = dict(files)
                if rng.random() < 0.6:
                    f2[main] = mild_neighbours(rng, files[main], rng.randint(1, 4))
                else:
                    f2[main] = neighbours(rng, files[main], rng.randint(1, 4))
                inputs.append((f2, main, 'neighbour'))
        for big in ('2147483646', '2147483647', '2147483648', '4294967296', '9223372036854775807', '9223372036854775808', '18446744073709551615',
                    '18446744073709551616', '99999999999999999999', '9' * 25):
            for tmpl in ('x := %s', 'x := y + %s', 'x := y - %s', 'IF x = %s THEN GOTO l; l: x := 1', 'PROGRAM p IN a DO x0 := a END x := RUN p WITH %s END'):
                inputs.append(({'m': tmpl % big}, 'm', 'literal'))
        for s in ('LOOP x DO END', 'WHILE x != 0 DO END', 'PROGRAM f IN a DO END x0 := RUN f WITH 4 END', 'LOOP x DO x0 := x0 + 1; l: END',
                  'LOOP x DO LOOP y DO END END', 'l: END', 'PROGRAM f DO END x := 1', 'x := 1; LOOP x DO END; y := 2', 'x := 1;', ';', 'x := 1 ; ; y := 2', 'PROGRAM f DO x0 := 1 END', 'PROGRAM f DO x0 := 1 END x := RUN f WITH END',
                  'PROGRAM f IN a OUT DO x := 1 END x := 1', 'x := RUN f WITH 1 END PROGRAM f IN a DO x0 := a END', 'x := 2147483646', 'x := 2147483647',
                  'IF x = 2147483647 THEN GOTO l; l: x := 1', 'x := x + 2147483647', 'x := y + 1 + 2', 'x := RUN __INC__ WITH y, 2 END',
                  'x := RUN __INC__ WITH 1, 2 END', 'x := RUN __DEC__ WITH y, z END', 'GOTO l', 'l: x := 1; GOTO l', 'WHILE x DO x := 1 END',
                  'LOOP 3 DO x := 1 END', 'x := 1 END', 'x := (1)', 'x := y - 0', 'PROGRAM f IN a DO l: x0 := a END GOTO l', 'STOP', 'x : = 1',
                  'PROGRAM f IN a DO x0 := RUN f WITH a END END x := RUN f WITH 1 END'):
            inputs.append(({'m': s}, 'm', 'fixed'))
        # separators: every way of misplacing one ',' or ';' in argument lists, parameter lists and statement sequences
        # whose element counts are otherwise right (so that only the grammar can object)
        defs = 'PROGRAM one IN a DO x0 := a + 1 END\nPROGRAM two IN a, b OUT r DO r := a; LOOP b DO r := r + 1 END END\nPROGRAM none DO x0 := 7 END\n'
        for call in ('x := RUN one WITH 3, END', 'x := RUN one WITH , 3 END', 'x := RUN one WITH 3 , , END', 'x := RUN two WITH 3, 4, END',
                     'x := RUN two WITH 3, , 4 END', 'x := RUN two WITH , 3, 4 END', 'x := RUN two WITH 3 4 END', 'x := RUN none WITH , END',
                     'x := RUN two WITH RUN one WITH 3, END, 4 END', 'x := RUN two WITH RUN one WITH 3 END, 4, END', 'x := RUN one WITH y + 1, END',
                     'x := RUN one WITH 3 END', 'x := RUN two WITH 3, 4 END', 'x := RUN none WITH END', 'x := RUN two WITH RUN one WITH 3 END, 4 END'):
            inputs.append(({'m': defs + call}, 'm', 'separators'))
            inputs.append(({'m': defs + 'PROGRAM user IN q DO ' + call.replace('x :=', 'x0 :=') + ' END\ny := RUN user WITH 1 END'}, 'm', 'separators'))
        for hdr in ('PROGRAM p IN a, DO x0 := a END', 'PROGRAM p IN , a DO x0 := a END', 'PROGRAM p IN a, , b DO x0 := a END', 'PROGRAM p IN a b DO x0 := a END',
                    'PROGRAM p IN a, b, OUT r DO r := a END', 'PROGRAM p IN a OUT r, DO r := a END', 'PROGRAM p IN a OUT r s DO r := a END'):
            inputs.append(({'m': hdr + '\nx := 1'}, 'm', 'separators'))
        for seq in ('x := 1; y := 2;', 'x := 1;; y := 2', '; x := 1', 'x := 1 y := 2', 'LOOP x DO y := 1; END', 'LOOP x DO ; y := 1 END', 'LOOP x DO y := 1 END; ; z := 2',
                    'WHILE x != 0 DO x := x - 1; END', 'l: ; x := 1', 'l: m: x := 1', 'x := 1; l:'):
            inputs.append(({'m': seq}, 'm', 'separators'))
    ccases = [('c%d' % i, 'compile ' + vlib.files_fields(m, f)) for i, (f, m, _) in enumerate(inputs)]
    scases = [('s%d' % i, 'scan ' + vlib.files_fields(m, f)) for i, (f, m, _) in enumerate(inputs)]
    iout = ctx.run_impl(ccases, timeout_case=30)
    mout = ctx.run_model(ccases, timeout_case=30)
    sout = ctx.run_model(scases, timeout_case=30) or {}
    res.rule = ('G-prog valid sources (all keyword spellings) and their neighbours by 1-4 token deletions, insertions, replacements, swaps; plus fixed boundary '
                'cases (literals around 2^31, sugar shapes, header forms, order of definitions). Verdict of the implementation against the grammar+static-rules '
                'recogniser on the specification scanner\'s tokens. Non-trivial = distinct token sequence with at least 4 tokens.')
    for i, (files, main, tag) in enumerate(inputs):
        res.evaluations += 1
        res.count(tag)
        case = {'source': {'files': files, 'main': main}}
        il = iout['c%d' % i]
        ip = parse_compile(il)
        if ip is None:
            if il != 'SKIPPED':
                res.violations.append(dict(case, what='crash', detail=il[:150]))
            continue
        if mout is not None:
            mp = parse_compile(mout['c%d' % i])
            res.compared += 1
            if mp is None:
                if not mout['c%d' % i].startswith('TIMEOUT'):
                    res.tie_broken.append(dict(case, what='model outcome ' + mout['c%d' % i][:60], impl=il[:200]))
            elif mp['ok'] != ip['ok'] or [e.split(':')[-1] for e in mp['errs']] != [e.split(':')[-1] for e in ip['errs']]:
                res.tie_broken.append(dict(case, what='verdict or error kinds differ', impl=il[:il.index(' PROG')][:300], model=mout['c%d' % i][:300]))
        sl = sout.get('s%d' % i, '')
        if not sl.startswith('toks='):
            continue
        parts = sl.split()
        n = int(parts[0][5:])
        toks = []
        for t in parts[1:1 + n]:
            k, f, l, x = t.split(':')
            toks.append((int(k), vlib.unhex_s(x) if x != '-' else ''))
        nerrs = int(parts[1 + n].split('=')[1]) if len(parts) > 1 + n else 0
        # drop the prepended include of the hidden macro file: its DEFINE tokens are not user macros
        hidden = vlib.hexs('__standards__')
        user = [(int(t.split(':')[0]), bytes.fromhex(t.split(':')[3]).decode('latin-1') if t.split(':')[3] != '-' else '')
                for t in parts[1:1 + n] if t.split(':')[1] != hidden]
        want = spec_accepts(user) if nerrs == 0 else False
        if want is None:
            res.skipped += 1
            continue
        if len(user) >= 4:
            res.nontrivial.add(tuple(user))
        res.count('accepted' if want else 'rejected')
        if want != ip['ok']:
            res.violations.append(dict(case, what='verdict', detail='compiler %s, language definition %s; errors %s' % (
                'accepts' if ip['ok'] else 'rejects', 'accepts' if want else 'rejects', ip['errs'][:3])))
        if not ip['ok'] and ip['nerr'] == 0:
            res.violations.append(dict(case, what='noerror', detail='marked incorrect without an error'))
        if len(res.samples) < 3 and tag == 'neighbour' and i % 53 == 0:
            res.sample({'main': files[main][:200], 'language_accepts': want, 'compiler_accepts': ip['ok']})
    if not res.samples and inputs:
        res.sample({'main': inputs[0][0][inputs[0][1]][:200]})
