#!/usr/bin/env python3
# mkmanifest.py — development helper: writes MANIFEST.json from the table below.
import json, os, subprocess
VERIF = os.path.dirname(os.path.dirname(os.path.abspath(__file__)))
hooks_commit = subprocess.run(['git', '-C', '/repo', 'log', '--format=%H', '--grep=verif hooks', '-n', '1'], capture_output=True, text=True).stdout.strip()

PARTIAL = 'partial: '
CHECKS = {
 'C01': dict(ref='§7 C01', text=PARTIAL + 'proved in Coq: compile correctness for the straight-line fragment — assignments x := y | c | y + c | y - c: the generated code run on the VM halts with exactly the values of the reference semantics (C01_straightline_partial; the structured fragment with LOOP/WHILE is being proved, C01Stages.v); RefSem.v is a function whose finished runs do not change with more budget (C01_ref_fuel_mono, C01_ref_steps). The simulation for ALL sources (C01_full, stated in C01Statements.v) is NOT proved: the property is decided on explored programs by the reference interpreter extracted from RefSem.v against compile+run of the implementation (final values of every live activation, budget clause).',
             note='trusted: Coq kernel; RefSem.v as the statement of the language semantics (DESIGN Appendix A); the model front end that feeds it (tied by C02/C04 correspondence); exploration bounded'),
 'C02': dict(ref='§7 C02', text='theorems for all inputs on the model: every stage is total — scanning (C15_terminates), extraction (C02_extract_total, C02_extract_eof, C02_extract_macros_ok), macro application for every budget on top of the LR driver-safety theorem (C02_apply_total), parsing (C02_parse_total, C02_parser_shape), code generation (C02_gen_total); result shape C02_shape and forwarding of earlier errors C02_errors_forwarded. Tie: every stage on the malformed stream, ASan/UBSan/LSan build with timeout. Known findings reproduced on every run: D11 (native stack depth), D13 (error located at #root_file_context:0).',
             note=PARTIAL + 'real memory safety, leaks and wall time are runtime facts observed on explored inputs; the Gallina model has explicit UB outcomes for every unchecked access of the C++ (DESIGN Appendix B)'),
 'C03': dict(ref='§7 C03', text='theorems: the bytecode verifier is sound for ALL programs and ALL runs and debugger histories (C03_wf_safe, C03_wf_observe, C03_wf_safe_hist, C03_wf_meaning): a program accepted by wf_program never makes the VM leave its arrays. ' + PARTIAL + 'that the generator only emits wf programs (C03_gen_wf) is not proved: every emitted program of the exploration is validated by the extracted verified checker and executed under ASan/UBSan.',
             note='trusted: Coq kernel; VMModel/VMCheck tied to vm.cpp by the VM correspondence; translation validation bounded by the generator of sources'),
 'C04': dict(ref='§7 C04', text='theorems: no syntax error <=> the token kinds form a sentence of the documented grammar, for all end-of-file terminated streams (C04_parser, both directions, against SpecGrammar.v); on parser-delivered trees the generator reports no error <=> the static rules hold (callee complete earlier with matching arity, built-ins, jump targets set in the same body, literals < 2^31-1, no repeated parameter), stated as definedness of the reference flattening (C04_static); rejecting half C04_reject, C04_errors_forwarded. ' + PARTIAL + 'the sugar step (apply_macros with the standard macros = desugar, C04_sugar) is not proved; decided on explored token sequences by an independent recogniser on the specification scanner\'s tokens.',
             note='trusted: Coq kernel; SpecGrammar.v / explore_accept.py as transcriptions of the documented grammar; exploration bounded'),
 'C05': dict(ref='§7 C05', text='Theorems C05_exec_core, C05_ops_core, C05_transparent, C05_same_result (Coq, closed under the global context) prove for ALL programs with consistent tables and ALL API histories that the debugged machine is always at a point of the uninterrupted run and ends with the same values; the model is tied to vm.cpp by differential runs of exhaustive short and random long histories (ip, path hash, views), and a path oracle evaluates the implementation alone.',
             note='trusted: Coq kernel; hand-written VMModel.v tied to VM/src/vm.cpp only on the explored histories; hypothesis tables_ok is what C08_gen_tables delivers for generated programs'),
 'C06': dict(ref='§7 C06', text='Theorems C06_execute, C06_stop_iff, C06_location, C06_enable, C06_enabled prove for all histories that execute stops exactly at the first stop site (site of an enabled line, or any site while stepping) or HALT, reports that site\'s location, succeeds exactly for available locations and keeps the enabled set equal to the fold of successful requests; tie: differential histories (replies, ip, enabled set, location, opcodes at sites) plus an independent stop-position oracle on the implementation.',
             note='trusted: Coq kernel; VMModel.v tied to vm.cpp on explored histories'),
 'C07': dict(ref='§7 C07', text=PARTIAL + 'proved: in stepping mode the machine stops exactly on the breakpoint sites of the instruction path and reports their locations, which are available locations (C07_stops_are_sites); available locations are never in the hidden file and are positions of tree nodes / tokens (C08_locations_ast, C08_parser_positions). That the sites sit where the source semantics says (C07_full) is decided on explored canonical-layout programs: complete stepping run of the implementation against the stop trace and views of the reference semantics.',
             note='trusted: Coq kernel; RefSem.v including its rule for where a new line starts; exploration bounded'),
 'C08': dict(ref='§7 C08', text='theorems for ALL syntax trees: the generator\'s tables are consistent and contain no BREAK (C08_gen_tables), tables_ok means inverse tables and listed <=> break opcode (C08_tables_ok_meaning), every available location is outside the hidden file and is the position of a tree node (C08_locations_ast), every tree node stands at a token of the parsed stream (C08_parser_positions). Tie: tables of every emitted program against the generator model; oracle: extracted checker + token positions of the scanned text.',
             note='trusted: Coq kernel; GenModel.v/Parser.v tied to gen.cpp/parse.cpp on explored sources; the step "macro expansion keeps token positions" is not proved'),
 'C09': dict(ref='§7 C09', text='theorems for all streams and macro sets: the step taken is a reported candidate that no reported candidate beats (priority, leftmost, longest), everything outside the range is untouched (C09_choice, C09_none, C09_bins_ok), the replacement is the body with $n -> slot n (C09_body), detection is leftmost (C09_leftmost), a detection IS a match of the pattern in the declarative sense — literal kinds and texts, slots deriving from their non-terminal (C09_detect_sound, on top of C13_sound), iteration = steps until none or budget (C09_iterate); C09_refuted_at_pinned documents D10. Tie: scan+extract+apply at budget 1; oracle: brute-force matcher enumerating all valid steps.',
             note=PARTIAL + 'completeness of detection (every match is found) rests on LR completeness, not proved; decided on explored streams'),
 'C10': dict(ref='§7 C10', text='theorems: decimal rendering is injective, temporary names of different passes differ for ANY file names and texts, different indices differ, a renamed temporary is never a scannable identifier, a loop counter or "error" (C10_dec_inj, C10_pass_inj, C10_index_inj, C10_not_user), and every pass number is used by at most one rewriting step (C10_one_rewrite_per_pass). Name format pieces are translated from macro.cpp on every run. Tie: apply at budgets 1..11 on nested/repeated/mutually nested uses.',
             note='trusted: Coq kernel; same-file hypothesis for bodies (an include inside a macro body is outside it)'),
 'C11': dict(ref='§7 C11', text='theorems for every budget and macro set: at most `budget` rewriting steps with consecutive pass numbers (C11_steps), an unfinished expansion always carries the too-many-substitutions error (C11_error, C11_pass_irrelevant), one step grows the stream by at most |body| * max slot (C11_growth_step); the budget constant 1024 and its use in parse() are translated. Tie: apply at budgets 1..20 and 1024 on self-reproducing and terminating sets.',
             note='trusted: Coq kernel; MacroApply.v tied to macro.cpp on explored inputs'),
 'C12': dict(ref='§7 C12', text='theorems: a conflicting macro yields exactly one non-linear error at its first pattern token and is filtered out, the others are unaffected (C12_reported, C12_others_unaffected); finite sweeps proved by vm_compute inside Coq: every pattern of length <= 3 over the 12-symbol alphabet ending in <P>/<ARGS> and every pattern of length <= 3 ending in `<P> ;` / `<ARGS> ,` is rejected; `<P> ; <ARGS> +` and other prefix-deterministic patterns are accepted (C12_open_ended_bounded, C12_trailing_sep_bounded, C12_accepted_examples). ' + PARTIAL + 'the unbounded families are not proved.',
             note='usability is by definition conflict-freedom of the canonical LR(1) construction in prefix mode = the model; its agreement with lrparser.hpp is tied exhaustively for patterns up to length 2-3'),
 'C13': dict(ref='§7 C13', text='theorems for all grammars built through createNonTerminal/add: FIRST sets are sound (sentential forms) and complete and the loop terminates within its budget (C13_first_sound, C13_first_complete, C13_first_terminates, C13_maxterm, C13_first_string); the generated parser is SOUND — an accepted input has a derivation tree of the start symbol over the consumed part (a prefix in prefix mode) and the value is the fold of that tree, last symbol first (C13_sound); the driver never leaves its tables or stacks (C13_driver_safe); generation is total (C13_generate_total). Three first drafts are refuted in Coq (unproductive symbols; foreign non-terminals). ' + PARTIAL + 'completeness and ambiguity => conflict are not proved; decided by a brute-force derivation counter on all small grammars.',
             note='trusted: Coq kernel; Grammar.v/LR.v tied to grammar.cpp/lrdea.cpp/lrparser.hpp including item sets in the implementation\'s state numbering'),
 'C14': dict(ref='§7 C14', text='theorems: the derivative matcher decides Matches (C14_matcher); the longest-match search computes the unique maximal munch for every rule list (C14_maxmunch); lexing is the unique tokenisation (C14_lex); the rule list translated from lexer.l agrees rule by rule with the documented table, has a catch-all, yields all 99 spellings and one-byte operators (C14_rules, C14_spellings, C14_unknown_byte, C14_rules_agree_meaning); scan = splice of separately lexed files, one EOF token (C14_scan, C14_eof). Tie: scanner of both build configurations (committed lex.yy.c / regenerated by flex now) against the specification scanner on all short strings; committed files byte-compared with a fresh flex run.',
             note=PARTIAL + 'the flex DFA tables and skeleton are not verified against the rules for all strings (C14_dfa_equiv open): tied by exhaustive short strings, every spelling of the rule table, random longer strings'),
 'C15': dict(ref='§7 C15', text='theorems for all rule lists and file maps: scanning terminates within the include-depth budget |files|+1 and is never undefined (C15_terminates), scan = splice with the active-stack rule (C15_scan_is_splice), reported missing files are absent (C15_missing_sound), no directive => no error (C15_no_include). Tie/oracle: all include graphs over 2-3 files (cycles, self-includes, diamonds, missing targets, missing main) and random 3-4 file graphs against the specification splice; file requests of the whole compilation.',
             note='trusted: Coq kernel; Scan.v tied to scan.cpp on explored graphs'),
 'C16': dict(ref='§7 C16', text='theorems: with acyclic calls the activation stack of a verified program never exceeds routines+1 for all runs (C16_depth); in every source whose static rules hold, callees are earlier definitions and the reference machine never holds more activations than routines (C16_calls_earlier, C16_ref_depth). ' + PARTIAL + 'that every emitted program is acyclic (generator invariant) and that LOOP-only programs halt on the VM are decided on explored programs (extracted acyclic_calls checker, depth observation at every instruction, reference run).',
             note='trusted: Coq kernel; exploration bounded'),
 'C17': dict(ref='§7 C17', text='Theorems rel_reachable, C17_reset (reset s = init p as whole records, code included), C17_after, C17_halt for all histories; tie: full hidden state after every reset and no-change after the end, compared with the model and checked against a fresh machine.',
             note='trusted: Coq kernel; VMModel.v tied to vm.cpp on explored histories; needs the THEO_VERIF_HOOKS accessors'),
 'C18': dict(ref='§7 C18', text=PARTIAL + 'by nature. Machine-checked: the writable objects with static storage duration of the compiled objects (nm, regenerated every run) are exactly the two read-only message tables (C18_statics); the model is a function of its inputs. Thread schedules and histories are SAMPLED: byte-wise equality of serialised results against fresh-process references across random orders, live VMs and 8 threads, plain and ThreadSanitizer builds.',
             note='runtime behaviour (schedules, data races) cannot be exhibited by a Gallina model; TSan detects, does not exclude'),
 'C19': dict(ref='§7 C19', text='Theorems C19_step and C19: after any history the frames of the live activations tile data exactly (data length = sum of frame sizes <= depth * max frame), for all programs whose PREPAREs have non-negative counts (true of generated code: C20_consts); C19_refuted_at_pinned documents the repaired defect D7; tie: frame geometry and data length after every call and at every instruction boundary (XS sweep).',
             note='trusted: Coq kernel; VMModel.v tied to vm.cpp on explored runs'),
 'C20': dict(ref='§7 C20', text='Theorems C20_range (all stored values in [0,2^31-1] after any history), C20_no_overflow, C20_sub, C20_add, and C20_consts (generated code only loads in-range constants and creates non-negative frames, for all trees); C20_refuted_at_pinned documents D8; tie: values after every call on programs approaching 2^31.',
             note='trusted: Coq kernel; model of int arithmetic (clamp in 64 bits) tied to vm.cpp on explored runs; range errors for literals/priorities are part of the compile correspondence (C02/C04)'),
}
ALL = ['C%02d' % i for i in range(1, 21)]
m = {
 'version': 1,
 'setup_cmd': 'cd /verif && python3 tools/setup.py',
 'hooks': {
   'guard': 'THEO_VERIF_HOOKS',
   'enable': 'the checks compile /repo\'s sources themselves with -DTHEO_VERIF_HOOKS (tools/vlib.py build_impl)',
   'baseline_off_cmd': '/verif/tools/baseline_off.sh',
   'source_commits': [hooks_commit],
   'add_only': True,
 },
 'engines': [{'name': 'coq-model', 'path': 'coq/', 'serves_properties': sorted(CHECKS), 'kind_free_text': 'Coq 8.16 development: hand-written executable model + theorems; extracted to OCaml for the correspondence'}],
 'checks': [],
 'not_applicable': [],
 'notes': 'see DESIGN.md; every check = translators + Coq obligations + oracle on the implementation + model/implementation correspondence',
}
for pid in ALL:
    if pid in CHECKS:
        c = CHECKS[pid]
        m['checks'].append({
          'property_id': pid,
          'quick_cmd': './check %s --tier quick' % pid,
          'thorough_cmd': './check %s --tier thorough' % pid,
          'evidence_file': 'evidence/%s.json' % pid,
          'replay_cmd_template': './check %s --replay {path}' % pid,
          'engine': 'coq-model',
          'level_claimed': {'category': 'proof', 'text': c['text'], 'design_ref': c['ref']},
          'level_note': c['note'],
          'technique': 'machine-checked proof in Coq about a hand-written executable model, tied to the code by translators and a differential correspondence check',
        })
    else:
        m['not_applicable'].append({'property_id': pid, 'reason': 'not yet claimed in this commit: model/theorems under construction (see DESIGN.md §11); will be claimed when its check is green'})
json.dump(m, open(os.path.join(VERIF, 'MANIFEST.json'), 'w'), indent=1)
print('MANIFEST.json:', len(m['checks']), 'checks')
