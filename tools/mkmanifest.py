#!/usr/bin/env python3
# mkmanifest.py — development helper: writes MANIFEST.json from the table below.
import json, os, subprocess
VERIF = os.path.dirname(os.path.dirname(os.path.abspath(__file__)))
hooks_commit = subprocess.run(['git', '-C', '/repo', 'log', '--format=%H', '--grep=verif hooks', '-n', '1'], capture_output=True, text=True).stdout.strip()

CHECKS = {
 'C05': dict(ref='§7 C05', text='Theorems C05_exec_core, C05_ops_core, C05_transparent, C05_same_result (Coq, closed under the global context) prove for ALL programs with consistent tables and ALL API histories that the debugged machine is always at a point of the uninterrupted run and ends with the same values; the model is tied to vm.cpp by differential runs of exhaustive short and random long histories (ip, path hash, views), and a path oracle evaluates the implementation alone.',
             note='trusted: Coq kernel; hand-written VMModel.v tied to VM/src/vm.cpp only on the explored histories; hypothesis tables_ok is what C08 delivers for compiled programs'),
 'C06': dict(ref='§7 C06', text='Theorems C06_execute, C06_stop_iff, C06_location, C06_enable, C06_enabled prove for all histories that execute stops exactly at the first stop site (site of an enabled line, or any site while stepping) or HALT, reports that site\'s location, succeeds exactly for available locations and keeps the enabled set equal to the fold of successful requests; tie: differential histories (replies, ip, enabled set, location, opcodes at sites) plus an independent stop-position oracle on the implementation.',
             note='trusted: Coq kernel; VMModel.v tied to vm.cpp on explored histories'),
 'C17': dict(ref='§7 C17', text='Theorems rel_reachable, C17_reset (reset s = init p as whole records, code included), C17_after, C17_halt for all histories; tie: full hidden state after every reset and no-change after the end, compared with the model and checked against a fresh machine.',
             note='trusted: Coq kernel; VMModel.v tied to vm.cpp on explored histories; needs the THEO_VERIF_HOOKS accessors'),
 'C19': dict(ref='§7 C19', text='Theorems C19_step and C19: after any history the frames of the live activations tile data exactly (data length = sum of frame sizes <= depth * max frame), for all programs whose PREPAREs have non-negative counts; C19_refuted_at_pinned documents the repaired defect D7; tie: frame geometry and data length after every call and at every instruction boundary (XS sweep).',
             note='trusted: Coq kernel; VMModel.v tied to vm.cpp on explored runs'),
 'C20': dict(ref='§7 C20', text='Theorems C20_range (all stored values in [0,2^31-1] after any history), C20_no_overflow, C20_sub, C20_add; C20_refuted_at_pinned documents D8; tie: values after every call on programs approaching 2^31, sanitizer build for the arithmetic itself.',
             note='trusted: Coq kernel; model of int arithmetic (clamp in 64 bits) tied to vm.cpp on explored runs; compile-time range errors (C20_literals) are covered by the compiler model only once it is proved (see DESIGN §7 C20)'),
}
ALL = ['C%02d' % i for i in range(1, 21)]
m = {
 'version': 1,
 'setup_cmd': 'cd /verif && python3 tools/setup.py',
 'hooks': {
   'guard': 'THEO_VERIF_HOOKS',
   'enable': 'the checks compile /repo\'s sources themselves with -DTHEO_VERIF_HOOKS (tools/vlib.py build_impl)',
   'baseline_off_cmd': '/verif/tools/baseline_off.sh',
   'source_commits': [hooks_commit],
   'add_only': True,
 },
 'engines': [{'name': 'coq-model', 'path': 'coq/', 'serves_properties': sorted(CHECKS), 'kind_free_text': 'Coq 8.16 development: hand-written executable model + theorems; extracted to OCaml for the correspondence'}],
 'checks': [],
 'not_applicable': [],
 'notes': 'see DESIGN.md; every check = translators + Coq obligations + oracle on the implementation + model/implementation correspondence',
}
for pid in ALL:
    if pid in CHECKS:
        c = CHECKS[pid]
        m['checks'].append({
          'property_id': pid,
          'quick_cmd': './check %s --tier quick' % pid,
          'thorough_cmd': './check %s --tier thorough' % pid,
          'evidence_file': 'evidence/%s.json' % pid,
          'replay_cmd_template': './check %s --replay {path}' % pid,
          'engine': 'coq-model',
          'level_claimed': {'category': 'proof', 'text': c['text'], 'design_ref': c['ref']},
          'level_note': c['note'],
          'technique': 'machine-checked proof in Coq about a hand-written executable model, tied to the code by translators and a differential correspondence check',
        })
    else:
        m['not_applicable'].append({'property_id': pid, 'reason': 'not yet claimed in this commit: model/theorems under construction (see DESIGN.md §11); will be claimed when its check is green'})
json.dump(m, open(os.path.join(VERIF, 'MANIFEST.json'), 'w'), indent=1)
print('MANIFEST.json:', len(m['checks']), 'checks')
