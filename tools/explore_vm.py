# explore_vm.py — exploration for the VM-level properties C05 C06 C17 C19 C20:
# G-hist histories on compiled programs, run on the implementation (hooks on) and on the extracted
# model; a Python oracle that computes, from the uninterrupted instruction path and the bookkeeping
# of requests, where every call must leave the machine.
import re, itertools, json, os, sys
sys.path.insert(0, os.path.dirname(os.path.abspath(__file__)))
import vlib, gen_prog
from checklib import BuildError

OPCH = 'pBHAJCPGXRKT'


def parse_prog(s):
    t = s.split()
    assert t[0] == 'PROG'
    i = 1
    n = int(t[i]); i += 1
    code = []
    for _ in range(n):
        code.append(tuple(int(x) for x in t[i:i + 4])); i += 4
    n = int(t[i]); i += 1
    maps = []
    for _ in range(n):
        name = t[i]; k = int(t[i + 1]); i += 2
        m = {}
        for _ in range(k):
            m[int(t[i])] = t[i + 1]; i += 2
        maps.append((name, m))
    n = int(t[i]); i += 1
    pbs = {}
    for _ in range(n):
        f = t[i]; l = int(t[i + 1]); k = int(t[i + 2]); i += 3
        pbs[(f, l)] = [int(x) for x in t[i:i + k]]; i += k
    n = int(t[i]); i += 1
    li = {}
    for _ in range(n):
        li[int(t[i])] = (t[i + 1], int(t[i + 2])); i += 3
    return {'code': code, 'maps': maps, 'pbs': pbs, 'li': li, 'text': s}


def compile_sources(ctx, srcs, variant='plain'):
    """srcs: list of (files, main) -> list of dict(ok, errs, prog(str)|None, raw)"""
    cases = [(str(i), 'compile ' + vlib.files_fields(m, f)) for i, (f, m) in enumerate(srcs)]
    out = ctx.run_impl(cases, variant)
    res = []
    for i in range(len(srcs)):
        line = out[str(i)]
        if not line.startswith('ok='):
            res.append({'ok': False, 'raw': line, 'prog': None})
            continue
        k = line.index('PROG')
        res.append({'ok': line.startswith('ok=1'), 'raw': line[:k], 'prog': line[k:]})
    return res


def parse_states(line):
    """a vm result line -> list of dict per call; trailing marker in ['END','FUEL','CRASH..']"""
    parts = line.split(' | ')
    tail = parts[-1].strip()
    states = []
    for p in parts[:-1]:
        d = {}
        for kv in p.split():
            if '=' in kv:
                k, v = kv.split('=', 1)
                d[k] = v
        states.append(d)
    return states, tail


def data_of(st):
    return [int(x) for x in st.get('data', '').split(',') if x]


def stack_of(st):
    return [tuple(int(y) for y in x.split(':')) for x in st.get('stack', '').split(';') if x]


def alphabet(prog, rng, nlocs=2):
    locs = sorted(prog['pbs'].keys())
    rng.shuffle(locs)
    locs = locs[:nlocs]
    calls = []
    for (f, l) in locs:
        calls.append('B %s %d 1' % (f, l))
        calls.append('B %s %d 0' % (f, l))
    calls.append('B %s %d 1' % (vlib.hexs('nofile'), 77))
    calls += ['C', 'S 1', 'S 0', 'X 4000', 'I', 'R']
    return calls


def odd_requests(prog):
    """enable requests for positions that are NOT available locations: program names with line 0, a real file with line 0 or a
    line without code, the hidden macro file, the root script's name"""
    names = set(re.findall(r'(?im)^\s*prog(?:ram)?\s+([A-Za-z_]\w*)', ' '.join(str(v) for v in prog.get('source', {}).get('files', {}).values())))
    files = sorted(set(f for f, _ in prog['pbs'].keys()))
    out = []
    for n in sorted(names) + ['#root', 'main']:
        out.append('B %s 0 1' % vlib.hexs(n))
    for f in files[:2]:
        for l in (0, -1, 100000):
            out.append('B %s %d 1' % (f, l))
    out.append('B %s 1 1' % vlib.hexs('__standards__'))
    return out


def random_history(prog, rng, n):
    locs = sorted(prog['pbs'].keys())
    h = []
    for _ in range(n):
        x = rng.random()
        if x < 0.25 and locs:
            f, l = rng.choice(locs)
            h.append('B %s %d %d' % (f, l, rng.choice([1, 1, 0])))
        elif x < 0.28:
            h.append('B %s %d 1' % (vlib.hexs('nofile'), rng.randint(-1, 9)))
        elif x < 0.33:
            h.append('C')
        elif x < 0.43:
            h.append('S %d' % rng.choice([0, 1]))
        elif x < 0.75:
            h.append('X 4000')
        elif x < 0.95:
            h.append('I')
        else:
            h.append('R')
    return h


def simulate(prog, path, hist, halted_path):
    """expected (r, ip, enabled, stepping, stopped_on_site or None, done) after each call; None if the
    history runs beyond the known path"""
    ops0 = ''.join(OPCH[c[0]] for c in prog['code'])
    li, pbs = prog['li'], prog['pbs']
    pos = 0
    en = set()
    stepping = False
    out = []

    def one():
        nonlocal pos
        if pos >= len(path):
            return None
        ip = path[pos]
        op = ops0[ip]
        if op == 'H':
            return (True, None, True)
        if pos + 1 >= len(path):
            return None
        pos += 1
        if op in 'pB':
            stop = (li.get(ip) in en) or stepping
            return (stop, ip if stop else None, False)
        return (False, None, False)
    for c in hist:
        w = c.split()
        site = None
        r = 1
        fresh = False
        if w[0] == 'B':
            b = (w[1], int(w[2]))
            if b in pbs:
                if w[3] == '1':
                    en.add(b)
                else:
                    en.discard(b)
            else:
                r = 0
        elif w[0] == 'C':
            en.clear()
        elif w[0] == 'S':
            stepping = w[1] == '1'
        elif w[0] == 'R':
            pos = 0
            en.clear()
            stepping = False
            fresh = True
        elif w[0] == 'I':
            x = one()
            if x is None:
                return out, False
            r = 1 if x[0] else 0
            site = x[1]
        elif w[0] in ('X', 'XR'):
            cap = int(w[1]) if w[0] == 'X' else 10 ** 7
            stopped = False
            for _ in range(cap):
                x = one()
                if x is None:
                    return out, False
                if x[0]:
                    stopped = True
                    site = x[1]
                    break
            if not stopped:
                return out, False
        ip = path[pos]
        out.append({'r': r, 'ip': ip, 'en': sorted(en), 'step': stepping, 'site': site,
                    'done': ops0[ip] == 'H', 'fresh': fresh, 'pos': pos})
    return out, True


def tag_for(what):
    return {
        'ip': ('C05', 'C06'), 'final': ('C05',), 'trace': ('C05',),
        'reply': ('C06',), 'stop': ('C06',), 'cur': ('C06',), 'enabled': ('C06',), 'breakops': ('C06', 'C17'),
        'fresh': ('C17',), 'absorb': ('C17',), 'tile': ('C19',), 'range': ('C20',), 'crash': ('C05', 'C06', 'C17', 'C19', 'C20'),
    }[what]


PROJECTION = {
    'C05': ('ip', 'tr', 'views', 'done'),
    'C06': ('r', 'ip', 'en', 'step', 'cur', 'done', 'ops'),
    'C17': ('r', 'ip', 'data', 'stack', 'en', 'step', 'cur', 'done', 'ops', 'views'),
    'C19': ('data#', 'stack', 'inv'),
    'C20': ('views', 'inv', 'range'),
}


def project(pid, st, untraced=False):
    out = []
    for k in PROJECTION[pid]:
        if k == 'tr' and untraced:
            continue            # the real VM::execute() runs outside the driver's instruction tracer
        if k == 'data#':
            out.append(str(len(data_of(st))))
        elif k == 'inv' and pid == 'C20':
            out.append('bad' if st.get('inv', 'ok').startswith('range') else 'ok')
        elif k == 'inv' and pid == 'C19':
            out.append('bad' if st.get('inv', 'ok').startswith('tile') else 'ok')
        elif k == 'range':
            out.append(str(all(0 <= w <= 2147483647 for w in data_of(st))))
        elif k == 'stack' and pid == 'C19':
            out.append(';'.join('%d:%d' % (a[0], a[1]) for a in stack_of(st)))
        else:
            out.append(st.get(k, ''))
    return '|'.join(out)


def literal_sweep(ctx, res):
    """C20, compile-time half: every numeric literal (source, IF, call argument, sugar) and every macro priority that does not
    fit the word is rejected with a range error; the ones that fit are accepted and the stored values are natural numbers"""
    import re
    lits = ['0', '7', '2147483645', '2147483646', '2147483647', '2147483648', '4294967295', '4294967296', '4294967297',
            '9223372036854775806', '9223372036854775807', '9223372036854775808', '18446744073709551615', '18446744073709551616',
            '18446744073709551617'] + ['9' * d for d in range(1, 31)] + ['1' + '0' * d for d in range(1, 31)]
    tmpls = [('assign', 'x := %s'), ('inc', 'y := 1; x := y + %s'), ('dec', 'y := 5; x := y - %s'), ('if', 'IF x = %s THEN GOTO l; x := 1; l: y := 2'),
             ('arg', 'PROGRAM p IN a DO x0 := a END x := RUN p WITH %s END'), ('prio', 'DEFINE PRIO %s foo AS x := 1 END DEFINE foo')]
    cases = []
    meta = {}
    for li, lit in enumerate(lits):
        for kind, t in tmpls:
            cid = 'L%d_%s' % (li, kind)
            cases.append((cid, 'compile ' + vlib.files_fields('m', {'m': t % lit})))
            meta[cid] = (lit, kind, t % lit)
    io = ctx.run_impl(cases, variant='asan')
    mo = ctx.run_model(cases, timeout_case=30)
    runs = []
    for cid, _ in cases:
        lit, kind, src = meta[cid]
        res.evaluations += 1
        res.count('literal_' + kind)
        line = io[cid]
        case = {'source': {'files': {'m': src}, 'main': 'm'}}
        if not line.startswith('ok='):
            res.violations.append(dict(case, what='crash', detail=line[:150]))
            continue
        ok = line.startswith('ok=1')
        fits = int(lit) < 2147483647
        has_range = 'Mrange' in line[:line.index('PROG')]
        if fits and not ok:
            res.violations.append(dict(case, what='literal', detail='literal %s fits the word but the source is rejected: %s' % (lit, line[:150])))
        if not fits and (ok or not has_range):
            res.violations.append(dict(case, what='literal', detail='literal %s does not fit the word but %s' % (lit, 'the source is accepted' if ok else 'no range error is reported: ' + line[:150])))
        if mo is not None and not mo[cid].startswith('TIMEOUT'):
            res.compared += 1
            a = line[:line.index('PROG')] if 'PROG' in line else line
            b = mo[cid][:mo[cid].index('PROG')] if 'PROG' in mo[cid] else mo[cid]
            if a != b:
                res.tie_broken.append(dict(case, what='literal handling differs from the model', impl=a[:300], model=b[:300]))
        if ok:
            runs.append((cid, 'vm %s 1 XS 2000' % line[line.index('PROG'):]))
            res.nontrivial.add(('literal', src))
    ro = ctx.run_impl(runs, variant='asan')
    for cid, _ in runs:
        lit, kind, src = meta[cid]
        out = ro[cid]
        if out.startswith(('CRASH', 'TIMEOUT', 'MEMLIMIT')) or 'inv=range' in out:
            res.violations.append({'source': {'files': {'m': src}, 'main': 'm'}, 'what': 'range', 'detail': 'running the accepted program: ' + out[:200]})


def explore(ctx, res, replay=None):
    pid = ctx.pid
    rng = ctx.rng
    quick = ctx.quick()
    if pid == 'C20' and not replay:
        literal_sweep(ctx, res)
    # ---- programs -----------------------------------------------------------------------------
    srcs = list(gen_prog.small_programs())
    extra_ = gen_prog.extra_programs()
    nrand = 40 if quick else 400
    big = pid == 'C20'
    deep = pid == 'C19'
    for k in range(nrand):
        o = gen_prog.Opts(canonical=rng.random() < 0.6, share_lines=0.5 if k % 5 == 2 else 0.0, max_defs=3 if k % 5 == 2 else 3, big_consts=0.35 if big else 0.02,
                          p_call=0.9 if deep else 0.6, allow_diverge=0.05)
        srcs.append(gen_prog.ProgGen(rng, o).program()[:2])
    srcs += extra_
    # the machine ends inside a called program (STOP with pending calls): the end must be absorbing (C17), memory must
    # still be exactly the live frames (C19), the debugged run must end like the uninterrupted one (C05)
    for s_ in ('PROGRAM inner IN a OUT r DO\n  r := a + 1;\n  STOP\nEND\nPROGRAM outer IN b OUT s DO\n  t := b + 2;\n  s := RUN inner WITH t END\nEND\nx0 := 5;\nx1 := RUN outer WITH x0 END;\nx2 := 7\n',
               'PROGRAM limit IN a OUT r DO\n  r := a;\n  IF a = 3 THEN GOTO over;\n  GOTO fine;\n  over: STOP;\n  fine: r := r + 1\nEND\nPROGRAM outer IN n OUT s DO\n  LOOP n DO\n    s := RUN limit WITH s END\n  END\nEND\nx0 := RUN outer WITH 6 END;\nx1 := 1\n',
               'PROGRAM halt DO\n  STOP\nEND\nPROGRAM f IN a, b OUT r DO\n  r := a\nEND\nx := 4;\ny := RUN f WITH x, RUN halt WITH END END;\nz := 1\n'):
        srcs.append(({'main.theo': s_}, 'main.theo'))
    if pid == 'C19':
        # calls inside long-running loops
        for n in (50, 300, 1000):
            srcs.append(({'m': ('PROGRAM f IN a OUT r DO r := a + 1 END\nPROGRAM g IN a DO x0 := RUN f WITH a END; x0 := RUN f WITH x0 END END\n'
                                'x1 := %d;\nLOOP x1 DO x2 := RUN g WITH x2 END END\n' % n)}, 'm'))
    if pid == 'C20':
        for s in ('x0 := 2147483646; x0 := x0 + 1; x0 := x0 + 1; x1 := x0 + 2147483646\n',
                  'x0 := 2000000000; x0 := x0 + 2000000000; x1 := x0 - 2147483646; x2 := x1 - 5\n',
                  'x0 := 1; x1 := 40; LOOP x1 DO x2 := x0; LOOP x2 DO x0 := x0 + 1 END END\n',
                  'x0 := 5; x0 := x0 - 7; x1 := x0 - 0; x2 := x0 + 0\n'):
            srcs.append(({'m': s}, 'm'))
    if replay and 'violation' in replay and 'source' in replay['violation']:
        rv = replay['violation']
        srcs = [(rv['source']['files'], rv['source']['main'])]
    comp = compile_sources(ctx, srcs)
    progs = []
    for (files, main), c in zip(srcs, comp):
        if c['prog'] is None:
            res.violations.append({'what': 'crash', 'detail': 'compile crashed: ' + c['raw'][:200],
                                   'source': {'files': files, 'main': main}}) if False else None
            continue
        if not c['ok']:
            res.count('sources_rejected')
            continue
        p = parse_prog(c['prog'])
        p['source'] = {'files': files, 'main': main}
        progs.append(p)
    res.count('programs', len(progs))
    # ---- uninterrupted paths ------------------------------------------------------------------
    PATHCAP = 3000 if quick else 20000
    cases = [('p%d' % i, 'vm %s 1 P %d' % (p['text'], PATHCAP)) for i, p in enumerate(progs)]
    pout = ctx.run_impl(cases)
    pmod = ctx.run_model(cases)
    for i, p in enumerate(progs):
        line = pout['p%d' % i]
        sts, tail = parse_states(line)
        if not sts:
            p['path'] = None
            continue
        p['path'] = [int(x) for x in sts[0].get('path', '').split(',') if x]
        p['final'] = sts[0]
        ops0 = ''.join(OPCH[c[0]] for c in p['code'])
        p['halts'] = bool(p['path']) and ops0[p['path'][-1]] == 'H'
        msts, mtail = parse_states(pmod['p%d' % i]) if pmod is not None else (sts, tail)
        if pmod is not None and pid != 'C17' and not (mtail == tail and len(msts) == len(sts) and msts and
                                     msts[0].get('path') == sts[0].get('path') and project(pid, msts[0]) == project(pid, sts[0])):
            res.tie_broken.append({'what': 'uninterrupted run differs', 'source': p['source'],
                                   'impl': line[:600], 'model': pmod['p%d' % i][:600]})
    # ---- histories ---------------------------------------------------------------------------------
    cases = []
    meta = {}
    hid = 0

    def add(pi, hist):
        nonlocal hid
        cid = 'h%d' % hid
        hid += 1
        cases.append((cid, 'vm %s %d %s' % (progs[pi]['text'], len(hist), ' '.join(hist))))
        meta[cid] = (pi, hist)
    if replay and 'violation' in replay and 'history' in replay['violation']:
        add(0, replay['violation']['history'])
    else:
        L = 3 if quick else 4
        for pi in range(min(3, len(progs))):
            alpha = alphabet(progs[pi], rng, 2)
            for ln in range(1, L + 1):
                for h in itertools.product(alpha, repeat=ln):
                    add(pi, list(h))
        nlong = 6 if quick else 30
        for pi in range(len(progs)):
            if progs[pi]['path'] is None:
                continue
            for _ in range(nlong):
                add(pi, random_history(progs[pi], rng, rng.randint(3, 40 if quick else 200)))
            # requests for positions that are not available must fail and must not disturb the run
            for rq in odd_requests(progs[pi]):
                add(pi, [rq, 'X 20000', 'C', 'X 20000'])
            add(pi, odd_requests(progs[pi]) + ['X 20000'])
            # calls after the end has been reached, with and without stepping
            add(pi, ['X 20000', 'X 20000', 'I', 'I', 'X 20000', 'S 1', 'I', 'X 20000', 'S 0', 'X 20000'])
            add(pi, ['S 1'] + ['X 20000'] * 3 + ['XS 20000', 'I', 'I', 'XS 20000'])
            # the real VM::execute() (no cap: only on programs whose uninterrupted run is known to halt)
            if progs[pi].get('halts'):
                locs = sorted(progs[pi]['pbs'].keys())
                add(pi, ['XR', 'XR'])
                add(pi, ['S 1', 'XR', 'XR', 'XR', 'S 0', 'XR'])
                if locs:
                    f, l = locs[len(locs) // 2]
                    add(pi, ['B %s %d 1' % (f, l), 'XR', 'XR', 'C', 'XR'])
            # the invariant sweep: every instruction boundary (C19/C20)
            add(pi, ['XS %d' % (20000 if quick else 200000)])
            add(pi, ['S 1'] + ['XS 3000'] * 6)
    # C20 is about undefined arithmetic: its histories run on the build with UndefinedBehaviorSanitizer (a signed overflow
    # that happens to wrap is still a violation)
    iout = ctx.run_impl(cases, variant='asan' if pid == 'C20' else 'plain', timeout_case=60 if pid == 'C20' else 30)
    mout = ctx.run_model(cases)
    res.rule = ('G-hist: all histories up to length %d over a %d-call alphabet (enable/disable two locations, an unavailable one, '
                'clear, stepping on/off, execute, single step, reset) on three small programs; random histories of length <= %d on '
                'generated programs; an every-instruction invariant sweep per program. Non-trivial = executes at least one '
                'instruction and contains a debugger request or a reset; distinct by (program, history).'
                % (3 if quick else 4, 11, 40 if quick else 200))
    for cid, _ in cases:
        pi, hist = meta[cid]
        p = progs[pi]
        line = iout[cid]
        res.evaluations += 1
        if line == 'SKIPPED':
            continue
        sts, tail = parse_states(line)
        case = {'source': p['source'], 'history': hist}
        if any(c[0] in 'XI' for c in hist) and any(c[0] in 'BCSR' for c in hist):
            res.nontrivial.add((pi, tuple(hist)))
        res.count('len_%s' % ('1-4' if len(hist) <= 4 else '5-40' if len(hist) <= 40 else '41+'))
        if tail.startswith('CRASH') or tail.startswith('TIMEOUT') or tail.startswith('MEMLIMIT') or line == 'MISSING':
            v = dict(case, what='crash', detail=tail or line)
            if pid in tag_for('crash'):
                res.violations.append(v)
            continue
        # ---- tie: projection of every state ----
        if mout is not None:
            ml = mout[cid]
            msts, mtail = parse_states(ml)
            res.compared += 1
            if pid == 'C17':
                # the states reset() produces, and the states reached by calls made after the end
                idx = [k for k in range(min(len(sts), len(msts)))
                       if hist[k] == 'R' or (k > 0 and sts[k - 1].get('done') == '1' and hist[k][0] in 'XI')]
            else:
                idx = list(range(min(len(sts), len(msts))))
            unt = any(c.split()[0] == 'XR' for c in hist)
            same = (tail == mtail or (tail.endswith('FUEL') and mtail.endswith('FUEL'))) and len(sts) == len(msts) and \
                all(project(pid, sts[k], unt) == project(pid, msts[k], unt) for k in idx if pid != 'C17' or hist[k] == 'R') and \
                all((project(pid, sts[k], unt) == project(pid, sts[k - 1], unt)) == (project(pid, msts[k], unt) == project(pid, msts[k - 1], unt))
                    for k in idx if pid == 'C17' and hist[k] != 'R')
            if not same:
                res.tie_broken.append(dict(case, what='implementation and model disagree on the %s projection' % pid,
                                           impl=line[:800], model=ml[:800]))
        # ---- oracle on the implementation ----
        bad = []
        for k, st in enumerate(sts):
            d = data_of(st)
            stk = stack_of(st)
            off = 0
            tiled = True
            for a in stk:
                if a[0] != off or a[1] < 0:
                    tiled = False
                off += a[1]
            if off != len(d):
                tiled = False
            if not tiled:
                bad.append(('tile', 'after call %d: data has %d words, frames %s' % (k, len(d), stk)))
            if any(w < 0 or w > 2147483647 for w in d):
                bad.append(('range', 'after call %d: value out of [0, 2^31-1]: %s' % (k, [w for w in d if w < 0 or w > 2147483647][:3])))
            inv = st.get('inv')
            if inv and inv != 'ok':
                bad.append(('tile' if inv.startswith('tile') else 'range', 'at instruction boundary: ' + inv))
        if p['path'] is not None and not any(c.startswith('XS') for c in hist):
            exp, complete = simulate(p, p['path'], hist, p['halts'])
            if not complete:
                res.skipped += 1
            ops0 = ''.join(OPCH[c[0]] for c in p['code'])
            prev = None
            for k, (e, st) in enumerate(zip(exp, sts)):
                if int(st['ip']) != e['ip']:
                    bad.append(('ip', 'after call %d (%s): ip %s, expected %d on the uninterrupted path' % (k, hist[k], st['ip'], e['ip'])))
                    break
                if int(st['r']) != e['r']:
                    bad.append(('reply', 'call %d (%s) replied %s, expected %d' % (k, hist[k], st['r'], e['r'])))
                en = ';'.join('%s:%d' % b for b in e['en']) + (';' if e['en'] else '')
                if st['en'] != en:
                    bad.append(('enabled', 'after call %d: enabled set %s, expected %s' % (k, st['en'], en)))
                if e['site'] is not None:
                    want = '%s:%d' % p['li'][e['site']]
                    if st['cur'] != want:
                        bad.append(('cur', 'stopped on site %d but current location is %s, expected %s' % (e['site'], st['cur'], want)))
                if e['fresh'] or k == 0 and hist[0][0] in 'BCS':
                    if e['fresh'] and (st['cur'] != 'none'):
                        bad.append(('cur', 'current location after reset is %s' % st['cur']))
                # while the machine stands where it stopped, the reported location is that site's: a request that does not
                # resume execution (enable, disable, clear, stepping on/off) must not change it
                if prev is not None and hist[k].split()[0] in ('B', 'C', 'S') and prev[0]['site'] is not None or \
                        (prev is not None and hist[k].split()[0] in ('B', 'C', 'S') and prev[0].get('standing') is not None):
                    standing = prev[0]['site'] if prev[0]['site'] is not None else prev[0].get('standing')
                    e['standing'] = standing
                    want = '%s:%d' % p['li'][standing]
                    if st['cur'] != want:
                        bad.append(('cur', 'standing on site %d after %s, but the current location is now %s, expected %s' % (standing, hist[k], st['cur'], want)))
                if e['fresh']:
                    if not (st['ip'] == '0' and st['data'] == '' and st['stack'] == '' and st['en'] == '' and st['step'] == '0'
                            and st['ops'] == ops0 and st['views'] == ''):
                        bad.append(('fresh', 'state after reset is not the initial state: %s' % json.dumps(st)[:300]))
                want_ops = ''.join(('B' if p['li'].get(i) in e['en'] else 'p') if ch in 'pB' else ch for i, ch in enumerate(ops0))
                if st['ops'] != want_ops:
                    bad.append(('breakops', 'after call %d: opcodes at sites %s, expected %s' % (k, st['ops'], want_ops)))
                if (st['done'] == '1') != e['done']:
                    bad.append(('stop', 'after call %d: done=%s, expected %s' % (k, st['done'], e['done'])))
                if prev is not None and prev[1]['done'] == '1' and hist[k][0] in 'XI':
                    for f in ('ip', 'data', 'stack', 'views', 'ops', 'en', 'step'):
                        if prev[1][f] != st[f]:
                            bad.append(('absorb', 'call %d (%s) after the end changed %s' % (k, hist[k], f)))
                if e['done'] and p['halts'] and 'final' in p:
                    fin = p['final']
                    if st['views'] != fin['views'] or st['data'] != fin['data']:
                        bad.append(('final', 'final values differ from the uninterrupted run: %s vs %s' % (st['views'], fin['views'])))
                    if st['tr'] != fin['tr'] and not any(c.split()[0] == 'XR' for c in hist):
                        bad.append(('trace', 'instruction path differs from the uninterrupted run (count:hash %s vs %s)' % (st['tr'], fin['tr'])))
                prev = (e, st)
        for what, detail in bad:
            if pid in tag_for(what):
                res.violations.append(dict(case, what=what, detail=detail))
                break
        if len(res.samples) < 3 and len(hist) > 2 and res.evaluations % 97 == 0:
            res.sample({'source_main': p['source']['files'][p['source']['main']][:200], 'history': hist[:12],
                        'result': line[:300]})
    if not res.samples and cases:
        cid = cases[len(cases) // 2][0]
        pi, hist = meta[cid]
        res.sample({'source_main': progs[pi]['source']['files'][progs[pi]['source']['main']][:200], 'history': hist[:12],
                    'result': iout[cid][:300]})
    # shrink the first violation's history (delta debugging on the call list)
    if res.violations and 'history' in res.violations[0] and not replay:
        res.violations[0] = shrink(ctx, res.violations[0])


def shrink(ctx, v):
    """drop calls while the same kind of failure persists (re-running this explorer on the candidate)"""
    from checklib import Result
    hist = list(v['history'])
    i = 0
    budget = 40
    while i < len(hist) and budget > 0:
        cand = hist[:i] + hist[i + 1:]
        budget -= 1
        r = Result()
        saved = ctx.model
        ctx.model = None
        try:
            explore(ctx, r, replay={'violation': dict(v, history=cand)})
        finally:
            ctx.model = saved
        if any(x['what'] == v['what'] for x in r.violations):
            hist = cand
        else:
            i += 1
    return dict(v, history=hist, shrunk_from=len(v['history']))
