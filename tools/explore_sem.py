# explore_sem.py — exploration for C01 (reference semantics), C07 (stepping and inspection), C16 (no recursion,
# LOOP programs halt, bounded stack).  The oracle is the reference interpreter extracted from RefSem.v, applied to
# the source as parsed by the model's front end; the implementation compiles and runs the same source.
import os, re, sys
sys.path.insert(0, os.path.dirname(os.path.abspath(__file__)))
import vlib, gen_prog
from explore_vm import parse_prog, compile_sources

LOOPVAR = vlib.hexs('Loop Variable ')
LIMIT = 2147483646


def parse_views(s):
    """'name{var=val,...};name{...};' -> list of (name, dict) without hidden loop counters"""
    out = []
    for m in re.finditer(r'([0-9a-f-]+)\{([^}]*)\};', s):
        d = {}
        for kv in m.group(2).split(','):
            if kv:
                k, v = kv.split('=')
                if not k.startswith(LOOPVAR):
                    d[k] = int(v)
        out.append((m.group(1), d))
    return out


def parse_trace(s):
    """' file:line@views file:line@views' -> list of (loc, views)"""
    out = []
    for item in s.split():
        loc, _, vs = item.partition('@')
        out.append((loc, parse_views(vs)))
    return out


def parse_ref(line):
    """refrun output -> dict"""
    if line.startswith(('REJECTED', 'NOSOURCE')) or 'REFFUEL' in line or 'REFBAD' in line or not line.startswith('routines='):
        return {'kind': line.split()[-1] if line else 'MISSING', 'raw': line[:100]}
    m = re.match(r'routines=(\d+) (STOP|DONE) steps=(\d+)(?: views=(\S*))? trace=(\d+)(.*)$', line)
    if not m:
        return {'kind': 'UNPARSED', 'raw': line[:200]}
    return {'kind': m.group(2), 'routines': int(m.group(1)), 'steps': int(m.group(3)), 'views': parse_views(m.group(4) or ''),
            'trace': parse_trace(m.group(6))}


def parse_T(line):
    m = re.search(r'trace=(.*) ended=(\d) stops=(\d+) n=(\d+) maxdepth=(\d+) r=1 (.*?) tr=', line)
    if not m:
        return None
    st = {}
    for kv in m.group(6).split():
        if '=' in kv:
            k, v = kv.split('=', 1)
            st[k] = v
    return {'trace': parse_trace(m.group(1)), 'ended': m.group(2) == '1', 'stops': int(m.group(3)), 'n': int(m.group(4)),
            'maxdepth': int(m.group(5)), 'views': parse_views(st.get('views', '')), 'state': st}


def big(views):
    return any(v >= LIMIT for _, d in views for v in d.values())


def recursion_family(rng):
    """self-, forward- and mutual references; redefinitions; across files"""
    out = []
    body = lambda callee, arg: 'x0 := RUN %s WITH %s END' % (callee, arg)
    T = [
        ('self', 'PROGRAM f IN a DO\n  %s\nEND\nx1 := RUN f WITH 1 END\n' % body('f', 'a'), False),
        ('forward', 'PROGRAM f IN a DO\n  %s\nEND\nPROGRAM g IN a DO\n  x0 := a\nEND\nx1 := RUN f WITH 1 END\n' % body('g', 'a'), False),
        ('mutual', 'PROGRAM f IN a DO\n  %s\nEND\nPROGRAM g IN a DO\n  %s\nEND\nx1 := RUN f WITH 1 END\n' % (body('g', 'a'), body('f', 'a')), False),
        ('backward', 'PROGRAM g IN a DO\n  x0 := a + 1\nEND\nPROGRAM f IN a DO\n  %s\nEND\nx1 := RUN f WITH 1 END\n' % body('g', 'a'), True),
        ('redef', 'PROGRAM f IN a DO\n  x0 := a + 1\nEND\nPROGRAM f IN a DO\n  %s\nEND\nx1 := RUN f WITH 1 END\n' % body('f', 'a'), True),
        ('redef_arity', 'PROGRAM f IN a DO\n  x0 := a + 1\nEND\nPROGRAM f IN a, b DO\n  x0 := RUN f WITH a END\nEND\nx1 := RUN f WITH 1, 2 END\n', True),
        ('self_nested_arg', 'PROGRAM f IN a DO\n  x0 := a\nEND\nPROGRAM g IN a DO\n  x0 := RUN f WITH RUN g WITH a END END\nEND\nx1 := RUN g WITH 1 END\n', False),
        ('main_forward', 'x1 := RUN f WITH 1 END\n', False),
        ('self_noargs', 'PROGRAM f DO\n  x0 := RUN f WITH END\nEND\nx1 := RUN f WITH END\n', False),
        ('forward_noargs', 'PROGRAM f DO\n  x0 := RUN g WITH END\nEND\nPROGRAM g DO\n  x0 := 1\nEND\nx1 := RUN f WITH END\n', False),
        ('mutual_noargs', 'PROGRAM ping DO\n  x0 := RUN pong WITH END\nEND\nPROGRAM pong DO\n  x0 := RUN ping WITH END\nEND\nx1 := RUN ping WITH END\n', False),
        ('undefined_noargs', 'x1 := RUN nosuch WITH END\n', False),
        ('loop_self_noargs', 'PROGRAM f DO\n  LOOP x0 DO\n    x1 := RUN f WITH END\n  END\nEND\nx1 := RUN f WITH END\n', False),
        ('backward_noargs', 'PROGRAM g DO\n  x0 := 4\nEND\nPROGRAM f DO\n  x0 := RUN g WITH END\nEND\nx1 := RUN f WITH END\n', True),
        ('chain3', 'PROGRAM a IN x DO\n  x0 := x + 1\nEND\nPROGRAM b IN x DO\n  x0 := RUN a WITH x END\nEND\nPROGRAM c IN x DO\n  x0 := RUN b WITH RUN a WITH x END END\nEND\nx1 := RUN c WITH 2 END\n', True),
    ]
    for name, src, ok in T:
        out.append((name, {'m': src}, 'm', ok))
        # the same with every definition in its own included file
        parts = re.split(r'(?=PROGRAM )', src)
        files = {}
        main = ''
        for i, p in enumerate(parts):
            if p.startswith('PROGRAM'):
                files['d%d' % i] = p
                main += 'include "d%d"\n' % i
            else:
                main += p
        files['m'] = main
        out.append((name + '_files', files, 'm', ok))
    return out


def explore(ctx, res, replay=None):
    pid = ctx.pid
    rng = ctx.rng
    quick = ctx.quick()
    srcs = []
    n = {'C01': 300, 'C07': 250, 'C16': 200}[pid] * (1 if quick else 20)
    if replay and 'violation' in replay and 'source' in replay['violation']:
        v = replay['violation']['source']
        srcs.append((v['files'], v['main'], {'replay': True}))
    else:
        for f, m in gen_prog.small_programs() + gen_prog.extra_programs():
            srcs.append((f, m, {}))
        for k in range(n):
            if pid == 'C07':
                o = gen_prog.Opts(canonical=True, multi_file=0.3, allow_diverge=0.0, p_goto=0.4)
            elif pid == 'C16':
                o = gen_prog.Opts(canonical=rng.random() < 0.5, p_goto=0.0 if k % 2 else 0.3, p_while=0.0 if k % 2 else 0.5,
                                  p_call=0.9, max_defs=4)
            else:
                o = gen_prog.Opts(canonical=rng.random() < 0.5, allow_diverge=0.08, big_consts=0.03, user_macros=0.2)
            f, m, meta = gen_prog.ProgGen(rng, o).program()
            srcs.append((f, m, meta))
        if pid == 'C16':
            for name, files, main, ok in recursion_family(rng):
                srcs.append((files, main, {'family': name, 'expect_ok': ok}))
    REFFUEL = 20000 if quick else 100000
    VMCAP = 12 * REFFUEL
    MAXSTOPS = 600 if quick else 3000
    comp = compile_sources(ctx, [(f, m) for f, m, _ in srcs])
    ref_cases = [('r%d' % i, 'refrun %d %s' % (REFFUEL, vlib.files_fields(m, f))) for i, (f, m, _) in enumerate(srcs)]
    refs = ctx.run_model(ref_cases)
    vm_cases = []
    chk_cases = []
    for i, c in enumerate(comp):
        if c['ok'] and c['prog']:
            vm_cases.append(('t%d' % i, 'vm %s 1 T %d %d' % (c['prog'], VMCAP, MAXSTOPS)))
            vm_cases.append(('x%d' % i, 'vm %s 1 XS %d' % (c['prog'], VMCAP)))
            chk_cases.append(('k%d' % i, 'checkprog ' + c['prog']))
    vout = ctx.run_impl(vm_cases, timeout_case=60)
    chk = ctx.run_model(chk_cases) or {}
    res.rule = ('G-prog: generated sources (definitions, nested LOOP/WHILE, jumps, calls as arguments, sugar, several files; %s). '
                'Each is compiled and run by the implementation (complete stepping run + plain run) and interpreted by the reference semantics '
                'extracted from RefSem.v (budget %d steps). Non-trivial = accepted, reference run finished, at least 5 reference steps; '
                'distinct by source text.' % ('canonical one-statement-per-line layout' if pid == 'C07' else 'canonical and arbitrary layout', REFFUEL))
    for i, (files, main, meta) in enumerate(srcs):
        res.evaluations += 1
        c = comp[i]
        case = {'source': {'files': files, 'main': main}}
        if refs is None:
            continue
        ref = parse_ref(refs['r%d' % i])
        if c['prog'] is None:
            res.count('compile_crash')
            continue
        fam = meta.get('family')
        if fam:
            res.count('family')
            # C16: a RUN naming the program being defined, or a later one, is rejected; earlier ones are accepted
            if c['ok'] != meta['expect_ok']:
                res.violations.append(dict(case, what='recursion', detail='%s: compiled=%s, expected %s' % (fam, c['ok'], meta['expect_ok'])))
            if c['ok'] != (ref['kind'] in ('STOP', 'DONE', 'REFFUEL')):
                res.tie_broken.append(dict(case, what='static verdict of the model differs', impl=c['raw'][:200], model=ref.get('raw', ref['kind'])))
        if not c['ok']:
            res.count('rejected')
            if ref['kind'] in ('STOP', 'DONE'):
                res.tie_broken.append(dict(case, what='implementation rejects a source the model front end accepts', impl=c['raw'][:300]))
            continue
        if ref['kind'] in ('NOSOURCE', 'REJECTED_BY_PARSER', 'REFBAD', 'UNPARSED', 'MISSING'):
            res.tie_broken.append(dict(case, what='model front end rejects a source the implementation accepts (%s)' % ref['kind']))
            continue
        t = parse_T(vout.get('t%d' % i, ''))
        xs = vout.get('x%d' % i, '')
        if t is None:
            res.violations.append(dict(case, what='crash', detail='stepping run: ' + vout.get('t%d' % i, '')[:200]))
            continue
        k = chk.get('k%d' % i, '')
        if pid == 'C16':
            if 'acyclic=1' not in k or 'wf=1' not in k:
                res.violations.append(dict(case, what='acyclic', detail='verified checker on the emitted program: ' + k))
            ndefs = len(re.findall(r'(?i)\bprog(?:ram)?\b', ' '.join(files.values())))
            if t['maxdepth'] > ndefs + 1:
                res.violations.append(dict(case, what='depth', detail='activation stack reached %d with %d definitions' % (t['maxdepth'], ndefs)))
        if ref['kind'] not in ('STOP', 'DONE', 'REFFUEL'):
            # the extracted reference interpreter gave no verdict (its own time cap): nothing is decided for this source
            res.count('reference_no_verdict_' + ref['kind'][:12])
            res.skipped += 1
            continue
        if ref['kind'] == 'REFFUEL':
            res.count('reference_out_of_budget')
            # C01 budget clause: the VM must not have finished within the proportional budget (steps <= instructions)
            mm = re.search(r'n=(\d+) ', xs)
            done = ' done=1' in xs
            if pid == 'C01' and done and mm and int(mm.group(1)) < REFFUEL:
                res.violations.append(dict(case, what='budget', detail='reference needs more than %d steps but the VM halted after %s instructions' % (REFFUEL, mm.group(1))))
            if pid == 'C16' and not meta.get('goto') and not meta.get('while'):
                res.count('loop_only_over_budget')
            continue
        if big(ref['views']) or any(big(v) for _, v in ref['trace']):
            res.skipped += 1
            continue
        if ref['steps'] >= 5:
            res.nontrivial.add(files[main] if isinstance(files[main], str) else files[main].decode('latin-1'))
        res.count('goto' if meta.get('goto') else 'structured')
        if meta.get('call'):
            res.count('with_calls')
        # final values (C01)
        truncated = (not t['ended']) and t['stops'] >= MAXSTOPS     # the stepping run was cut at MAXSTOPS stops, not at the end
        if truncated:
            # whether the machine halts, and with what values, is then read from the uninterrupted run under the same cap
            res.count('stepping_run_truncated')
            xm = re.search(r' r=1 (.*)$', xs)
            xst = dict(kv.split('=', 1) for kv in (xm.group(1).split() if xm else []) if '=' in kv)
            if 'FUEL' in xs or not xm:
                res.violations.append(dict(case, what='halt', detail='reference finished after %d steps but the VM did not halt within %d instructions' % (ref['steps'], VMCAP)))
                continue
            final_views = parse_views(xst.get('views', ''))
        elif not t['ended']:
            res.violations.append(dict(case, what='halt', detail='reference finished after %d steps but the VM did not halt within %d instructions' % (ref['steps'], VMCAP)))
            continue
        else:
            final_views = t['views']
        if pid in ('C01', 'C16') and final_views != ref['views']:
            res.violations.append(dict(case, what='values', detail='final values: VM %s / reference %s' % (final_views, ref['views'])))
        if pid == 'C01':
            mm = re.search(r'n=(\d+) ', xs)
            if mm and int(mm.group(1)) < ref['steps'] - len(ref['trace']):
                res.violations.append(dict(case, what='budget', detail='VM used %s instructions for %d reference steps' % (mm.group(1), ref['steps'])))
        if pid == 'C07':
            a = [(l, v) for l, v in t['trace']]
            b = [(('%s:%d' % (l.split(':')[0], int(l.split(':')[1]))), v) for l, v in ref['trace']]
            if truncated:
                b = b[:len(a)]
            if [x[0] for x in a] != [x[0] for x in b]:
                k0 = next((j for j in range(min(len(a), len(b))) if a[j][0] != b[j][0]), min(len(a), len(b)))
                res.violations.append(dict(case, what='stops', detail='stop %d: VM at %s, source semantics at %s (of %d / %d stops)' % (
                    k0, a[k0][0] if k0 < len(a) else 'end', b[k0][0] if k0 < len(b) else 'end', len(a), len(b))))
            elif a != b:
                k0 = next(j for j in range(len(a)) if a[j] != b[j])
                res.violations.append(dict(case, what='views', detail='views at stop %d (%s): VM %s / source semantics %s' % (k0, a[k0][0], a[k0][1], b[k0][1])))
            if any(l.startswith(vlib.hexs('__standards__')) for l, _ in a):
                res.violations.append(dict(case, what='hidden', detail='a stop in the hidden standard-macro file'))
            res.count('stops', len(a))
        if pid == 'C16' and not meta.get('goto') and not meta.get('while') and not fam:
            res.count('loop_only_halted')
        if len(res.samples) < 3 and ref['steps'] > 30:
            res.sample({'main': files[main][:300], 'reference_steps': ref['steps'], 'final': str(ref['views'])[:200]})
    if not res.samples and srcs:
        res.sample({'main': srcs[0][0][srcs[0][1]][:300]})
