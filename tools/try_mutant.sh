#!/bin/bash
export VERIF_SKIP_EVIDENCE=1
# try_mutant.sh <sed-expr> <file-in-repo> <prop>... : apply a one-line mutation to /repo, run the checks, undo it
expr="$1"; file="$2"; shift 2
cd /repo && git diff --quiet || { echo "repo dirty"; exit 2; }
sed -i "$expr" "$file"
git -C /repo diff --stat | tail -1
for p in "$@"; do
  out=$(/verif/check $p 2>&1 | grep -E "VIOLATION|KNOWN|Error|Traceback" | head -3)
  echo "$p exit=$? :: $out"
done
git -C /repo checkout -- .; python3 /verif/tools/translate.py >/dev/null
