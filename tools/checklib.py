# checklib.py — the decision protocol of DESIGN.md §5, shared by all properties.
import json, os, random, re, sys, time, subprocess, hashlib
sys.path.insert(0, os.path.dirname(os.path.abspath(__file__)))
import vlib, translate

VERIF = vlib.VERIF
COQ = vlib.COQ


class Ctx:
    """everything an explorer needs"""

    def __init__(self, pid, tier, seed):
        self.pid = pid
        self.tier = tier
        self.seed = seed
        self.rng = random.Random(seed * 1000003 + sum(map(ord, pid)))
        self.impl = {}
        self.model = None
        self.notes = []

    def quick(self):
        return self.tier == 'quick'

    def impl_exe(self, variant='plain', flexgen=False):
        if os.environ.get('VERIF_FORCE_VARIANT') and variant != 'tsan':
            variant = os.environ['VERIF_FORCE_VARIANT']         # development: tools/coverage.py
        key = (variant, flexgen)
        if key not in self.impl:
            exe, err = vlib.build_impl(variant, flexgen=flexgen)
            if exe is None:
                raise BuildError('implementation (%s) does not build:\n%s' % (variant, err))
            self.impl[key] = exe
        return self.impl[key]

    def run_impl(self, cases, variant='plain', timeout_case=10, flexgen=False):
        return vlib.run_cases(self.impl_exe(variant, flexgen), cases, timeout_case=timeout_case)

    def run_model(self, cases, timeout_case=60):
        if self.model is None:
            return None
        return vlib.run_cases(self.model, cases, timeout_case=timeout_case)


class BuildError(Exception):
    pass


class Result:
    def __init__(self):
        self.evaluations = 0
        self.nontrivial = set()
        self.rule = ''
        self.samples = []
        self.violations = []      # list of dict(what=..., case=...)
        self.tie_broken = []      # list of dict(case=..., impl=..., model=...)
        self.known_hits = []      # list of finding entries that were reproduced
        self.distribution = {}
        self.skipped = 0
        self.compared = 0

    def count(self, key, n=1):
        self.distribution[key] = self.distribution.get(key, 0) + n

    def sample(self, s, limit=4):
        if len(self.samples) < limit:
            self.samples.append(s)


def properties_info(pid):
    """theorem names of Properties_<pid>.v"""
    p = os.path.join(COQ, 'Properties_%s.v' % pid)
    if not os.path.exists(p):
        return []
    return re.findall(r'^Theorem\s+(\w+)', open(p).read(), flags=re.M)


def forbidden_scan():
    """no Admitted / admit / Axiom ... anywhere in the development"""
    bad = []
    pat = re.compile(r'\b(Admitted|admit|Axiom|Axioms|Parameter|Parameters|Conjecture|Hypothesis|Hypotheses|Variable|Variables)\b|Unset\s+Guard|bypass_check|-type-in-type|Admit\s+Obligations')
    for f in sorted(os.listdir(COQ)):
        if not f.endswith('.v'):
            continue
        txt = open(os.path.join(COQ, f)).read()
        txt_nc = re.sub(r'\(\*.*?\*\)', '', txt, flags=re.S)
        depth = 0
        for ln, line in enumerate(txt_nc.split('\n'), 1):
            if re.match(r'\s*Section\b', line):
                depth += 1
            if re.match(r'\s*End\b', line) and depth > 0:
                depth -= 1
            for m in pat.finditer(line):
                w = m.group(0)
                if w.startswith(('Variable', 'Hypothes')) and depth > 0:
                    continue     # section variables are discharged at End
                bad.append('%s:%d:%s' % (f, ln, w))
    return bad


def assumptions_of(pid, theorems):
    """Print Assumptions of every theorem, through a throw-away file compiled against the .vo"""
    import tempfile, shutil
    d = tempfile.mkdtemp(prefix='theo-pa.', dir='/var/tmp')
    try:
        src = 'From Theo Require Import Properties_%s.\n' % pid
        for t in theorems:
            src += 'Print Assumptions %s.\n' % t
        open(os.path.join(d, 'PA.v'), 'w').write(src)
        r = vlib.sh(['timeout', '300', 'coqc', '-Q', COQ, 'Theo', os.path.join(d, 'PA.v')])
        out = r.stdout
        res = []
        # split on the sequence of answers
        chunks = re.split(r'(?=Closed under the global context|Axioms:)', out)
        chunks = [c.strip() for c in chunks if c.strip().startswith(('Closed', 'Axioms:'))]
        for i, t in enumerate(theorems):
            res.append((t, ' '.join(chunks[i].split()) if i < len(chunks) else 'UNKNOWN: ' + out[-300:]))
        return res, r.returncode == 0
    finally:
        shutil.rmtree(d, ignore_errors=True)


def failing_vo(output):
    return sorted(set(re.findall(r'File "\./(\w+)\.v", line \d+[^\n]*\n(?:[^\n]*\n)*?Error', output))) or \
        sorted(set(re.findall(r'\[(\w+)\.vo\] Error', output)))


def is_known(pid, viol, findings):
    for f in findings:
        if f.get('status') != 'finding' or f.get('property') != pid:
            continue
        m = f.get('match', {})
        if all(str(viol.get(k)) == str(v) for k, v in m.items()):
            return f
    return None


def main(pid, explorer, deps_gen=(), extra_vo=(), assumptions=(), not_modelled='', design_ref=''):
    import argparse
    ap = argparse.ArgumentParser()
    ap.add_argument('--tier', default=os.environ.get('VERIF_TIER', 'quick'))
    ap.add_argument('--replay', default=None)
    a = ap.parse_args(sys.argv[2:])
    tier = a.tier if a.tier in ('quick', 'thorough') else 'quick'
    seed = int(os.environ.get('VERIF_SEED', '1') or 1)
    t0 = time.time()
    ctx = Ctx(pid, tier, seed)
    proof_broken = []
    tie_broken = []
    # 1. translators, Coq obligations, drivers
    tr = translate.run_all()
    # a translator that fails leaves a generated file that does not compile: exactly the obligations (and, through
    # Extract.v, the executable model) that depend on it break below; its message is attached to those reports
    tr_errs = ['translator %s: %s' % (name, err) for name, err in tr.items() if err]
    for name, err in tr.items():
        if err and vlib.coq_depends('Properties_%s' % pid, name[:-2]):
            proof_broken.append('translator %s can no longer read the source (%s): the theorems of Properties_%s.v are about the '
                                'last translatable version, not about the code' % (name, err, pid))
    theorems = properties_info(pid)
    ok, out = vlib.coq_make(['Properties_%s.vo' % pid] + list(extra_vo))
    make_log = out
    if not ok:
        for f in failing_vo(out) or ['Properties_%s' % pid]:
            proof_broken.append('Coq obligation no longer checks: %s.v' % f)
        proof_broken += tr_errs
    bad = forbidden_scan()
    if bad:
        proof_broken.append('forbidden declarations in the development: ' + ', '.join(bad[:10]))
    pa, pa_ok = (assumptions_of(pid, theorems) if ok else ([], False))
    discharged = len([1 for t, txt in pa if txt.startswith('Closed') or txt.startswith('Axioms:')]) if ok else 0
    chk_summary = None
    if ok and tier == 'thorough':
        # independent re-check of the compiled property file and everything it depends on
        r = vlib.sh(['timeout', '3000', 'coqchk', '-silent', '-o', '-Q', '.', 'Theo', 'Theo.Properties_%s' % pid], cwd=COQ)
        chk_summary = ' '.join(r.stdout[r.stdout.find('CONTEXT SUMMARY'):].split()) if 'CONTEXT SUMMARY' in r.stdout else 'coqchk failed: ' + r.stdout[-300:]
        if r.returncode != 0:
            proof_broken.append('coqchk rejects Properties_%s.vo' % pid)
    model, merr = vlib.build_model()
    if model is None:
        tie_broken.append({'what': 'the extracted model does not build', 'detail': (merr or '')[-1500:], 'translators': tr_errs})
    ctx.model = model
    res = Result()
    build_err = None
    try:
        if a.replay:
            explorer(ctx, res, replay=json.load(open(a.replay)))
        else:
            explorer(ctx, res, replay=None)
    except BuildError as e:
        build_err = str(e)
    except Exception as e:                      # noqa: the explorer could not digest what a driver printed
        import traceback
        res.tie_broken.append({'what': 'the explorer could not interpret the output of the implementation or of the model (%s: %s)' % (type(e).__name__, e),
                               'traceback': traceback.format_exc()[-1500:]})
    findings = vlib.known_findings()
    new_viol = []
    for v in res.violations:
        f = is_known(pid, v, findings)
        if f:
            if f not in res.known_hits:
                res.known_hits.append(f)
        else:
            new_viol.append(v)
    tie_broken += res.tie_broken
    for f in res.known_hits:
        print('KNOWN-FINDING: property=%s %s' % (pid, f['what']))
    exit_code = 0
    replay_path = None
    if build_err:
        replay_path = vlib.write_replay(pid, 'build', {'property': pid, 'what': 'the working tree does not build', 'detail': build_err[-3000:]})
        print('VIOLATION property=%s replay=%s no-failing-input-found' % (pid, replay_path))
        exit_code = 1
    elif new_viol:
        v = new_viol[0]
        name = hashlib.sha1(json.dumps(v, sort_keys=True, default=str).encode()).hexdigest()[:10]
        replay_path = vlib.write_replay(pid, name, {'property': pid, 'violation': v, 'others': new_viol[1:5],
                                                     'proof_broken': proof_broken, 'tie_broken': tie_broken[:3]})
        print('VIOLATION property=%s replay=%s' % (pid, replay_path))
        exit_code = 1
    elif proof_broken or tie_broken:
        replay_path = vlib.write_replay(pid, 'unproved', {
            'property': pid, 'what': 'the property is no longer shown to hold; no failing input was found',
            'proof_broken': proof_broken, 'tie_broken': tie_broken[:5],
            'make_log_tail': make_log[-2500:] if proof_broken else ''})
        print('VIOLATION property=%s replay=%s no-failing-input-found' % (pid, replay_path))
        exit_code = 1
    # evidence
    tb = ['Coq 8.16.1 kernel (coqc, vm_compute; no native_compute)',
          'extraction: ExtrOcamlBasic + ExtrOcamlString directives only; OCaml 4.13.1; ocaml/driver.ml',
          'translators tools/translate.py (lexer rules, enums, constants incl. the generator\'s initial position, detector grammar, flex tables of lex.yy.c, nm statics)',
          'correspondence harness: driver/impl_driver.cpp, generators, g++ 12, sanitizer runtimes',
          'hand-written model of the C++ (see DESIGN.md §2.3, §9)']
    for t, txt in pa:
        tb.append('Print Assumptions %s: %s' % (t, txt))
    if chk_summary:
        tb.append('coqchk -o: ' + chk_summary)
    cov = {
        'obligations': max(1, len(theorems) + len([1 for n, e in tr.items()])),
        'discharged': (discharged + len([1 for n, e in tr.items() if not e])) if not proof_broken else discharged,
        'checker_cmd': 'cd /verif/coq && make -k -j16 Properties_%s.vo  (then Print Assumptions per theorem)' % pid,
        'trusted_base': tb,
        'theorems': theorems,
        'proof_broken': proof_broken,
        'tie_broken': len(tie_broken),
        'evaluations': res.evaluations,
        'distinct_nontrivial': len(res.nontrivial),
        'rule': res.rule,
        'samples': res.samples[:4] or ['(no case explored)'],
        'compared_with_model': res.compared,
        'skipped_outside_quantifier': res.skipped,
        'distribution': res.distribution,
        'known_findings_reproduced': [f['what'] for f in res.known_hits],
        'not_modelled': not_modelled,
        'notes': ctx.notes,
    }
    if not os.environ.get('VERIF_SKIP_EVIDENCE'):      # set by the mutation-testing helpers only
      vlib.write_evidence(pid, tier, seed, cov, time.time() - t0, len(new_viol),
                        list(assumptions) + ['the Gallina model is tied to the C++ by differential runs on the explored cases only'])
    sys.exit(exit_code)
