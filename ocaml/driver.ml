(* driver.ml — runs the extracted Coq model on the same case file as impl_driver.cpp and prints the
   same canonical lines.  usage: model_driver <casefile> *)
open BinNums
module L = Stdlib.List

(* ---- conversions between OCaml values and the extracted Coq number types ---- *)
let rec pos_of_int (n : int) : positive =
  if n = 1 then Coq_xH
  else if n land 1 = 0 then Coq_xO (pos_of_int (n lsr 1))
  else Coq_xI (pos_of_int (n lsr 1))
let rec int_of_pos = function
  | Coq_xH -> 1
  | Coq_xO p -> 2 * int_of_pos p
  | Coq_xI p -> 2 * int_of_pos p + 1
let z_of_int n = if n = 0 then Z0 else if n > 0 then Zpos (pos_of_int n) else Zneg (pos_of_int (-n))
let int_of_z = function Z0 -> 0 | Zpos p -> int_of_pos p | Zneg p -> - (int_of_pos p)
let n_of_int n = if n = 0 then N0 else Npos (pos_of_int n)
let int_of_n = function N0 -> 0 | Npos p -> int_of_pos p
let rec nat_of_int n = if n <= 0 then Datatypes.O else Datatypes.S (nat_of_int (n - 1))
let rec int_of_nat = function Datatypes.O -> 0 | Datatypes.S n -> 1 + int_of_nat n

let str_of_string (s : string) : Base.str = L.init (Stdlib.String.length s) (fun i -> n_of_int (Char.code (Stdlib.String.get s i)))
let string_of_str (s : Base.str) : string =
  let b = Buffer.create 16 in
  L.iter (fun c -> Buffer.add_char b (Char.chr (int_of_n c land 255))) s;
  Buffer.contents b

let hex (s : string) : string =
  if s = "" then "-" else begin
    let b = Buffer.create (2 * Stdlib.String.length s) in
    Stdlib.String.iter (fun c -> Buffer.add_string b (Printf.sprintf "%02x" (Char.code c))) s;
    Buffer.contents b
  end
let unhex (h : string) : string =
  if h = "-" then "" else begin
    let n = Stdlib.String.length h / 2 in
    Stdlib.String.init n (fun i -> Char.chr (int_of_string ("0x" ^ Stdlib.String.sub h (2 * i) 2)))
  end
let hexs (s : Base.str) = hex (string_of_str s)

(* ---- token reader ---- *)
exception Bad_case
type toks = { t : string array; mutable p : int }
let next tk = if tk.p >= Array.length tk.t then raise Bad_case else (let s = tk.t.(tk.p) in tk.p <- tk.p + 1; s)
let num tk = int_of_string (next tk)
let zed tk = z_of_int (num tk)
let sstr tk = str_of_string (unhex (next tk))
let rec times n f = if n <= 0 then [] else (let x = f () in x :: times (n - 1) f)

let buf = Buffer.create 65536
let pr fmt = Printf.bprintf buf fmt

exception Stop of string   (* ends a case early with this text *)

let ub_name = function
  | Base.Coq_ub_index -> "index" | Base.Coq_ub_back -> "back" | Base.Coq_ub_null -> "null"
  | Base.Coq_ub_overflow -> "overflow" | Base.Coq_ub_iter -> "iter"

let get = function
  | Base.Ok a -> a
  | Base.UB k -> raise (Stop ("UB " ^ ub_name k))
  | Base.Fuel -> raise (Stop "FUEL")

(* ---- VM ---- *)
open VMModel
let opcode_of_int = function
  | 0 -> POTENTIAL_BREAK | 1 -> BREAK | 2 -> HALT | 3 -> ADD_CONST | 4 -> JMP | 5 -> JMPC
  | 6 -> PREPARE_EXEC | 7 -> ARG | 8 -> EXEC | 9 -> RET | 10 -> CONST | 11 -> TEST | _ -> raise Bad_case
let int_of_opcode = function
  | POTENTIAL_BREAK -> 0 | BREAK -> 1 | HALT -> 2 | ADD_CONST -> 3 | JMP -> 4 | JMPC -> 5
  | PREPARE_EXEC -> 6 | ARG -> 7 | EXEC -> 8 | RET -> 9 | CONST -> 10 | TEST -> 11
let opch = "pBHAJCPGXRKT"

let read_program tk : program =
  if next tk <> "PROG" then raise Bad_case;
  let n = num tk in
  let code = times n (fun () ->
    let o = opcode_of_int (num tk) in let a = zed tk in let b = zed tk in let c = zed tk in
    { iop = o; ia = a; ib = b; ic = c }) in
  let n = num tk in
  let maps = times n (fun () ->
    let name = sstr tk in
    let k = num tk in
    let m = times k (fun () -> let r = zed tk in let s = sstr tk in (r, s)) in
    (* std::map<RegisterIndex,string>: insert-or-replace in key order *)
    let m = L.fold_left (fun acc (r, s) -> Base.ainsert z_ltb acc r s) [] m in
    { func_name = name; smap = m }) in
  let n = num tk in
  let pbs = times n (fun () ->
    let f = sstr tk in let l = zed tk in
    let k = num tk in
    let v = times k (fun () -> zed tk) in
    ({ bfile = f; bline = l }, v)) in
  let pbs = L.fold_left (fun acc (b, v) -> Base.ainsert bp_ltb acc b v) [] pbs in
  let n = num tk in
  let li = times n (fun () -> let i = zed tk in let f = sstr tk in let l = zed tk in (i, { bfile = f; bline = l })) in
  let li = L.fold_left (fun acc (i, b) -> Base.ainsert z_ltb acc i b) [] li in
  { code = code; stack_maps = maps; potential_breaks = pbs; line_info = li }

let nargs_of = function
  | POTENTIAL_BREAK | BREAK | HALT -> 0
  | JMP | EXEC | RET -> 1
  | CONST | JMPC | ARG -> 2
  | _ -> 3

let print_program (p : program) =
  pr "PROG %d" (L.length p.code);
  L.iter (fun i ->
    let n = nargs_of i.iop in
    pr " %d %d %d %d" (int_of_opcode i.iop) (if n >= 1 then int_of_z i.ia else 0)
      (if n >= 2 then int_of_z i.ib else 0) (if n >= 3 then int_of_z i.ic else 0)) p.code;
  pr " %d" (L.length p.stack_maps);
  L.iter (fun m ->
    pr " %s %d" (hexs m.func_name) (L.length m.smap);
    L.iter (fun (r, s) -> pr " %d %s" (int_of_z r) (hexs s)) m.smap) p.stack_maps;
  pr " %d" (L.length p.potential_breaks);
  L.iter (fun (b, v) ->
    pr " %s %d %d" (hexs b.bfile) (int_of_z b.bline) (L.length v);
    L.iter (fun i -> pr " %d" (int_of_z i)) v) p.potential_breaks;
  pr " %d" (L.length p.line_info);
  L.iter (fun (i, b) -> pr " %d %s %d" (int_of_z i) (hexs b.bfile) (int_of_z b.bline)) p.line_info

let print_vm_state (s : vm) =
  pr "ip=%d data=" (int_of_z s.ip);
  L.iter (fun w -> pr "%d," (int_of_z w)) s.data;
  pr " stack=";
  L.iter (fun a -> pr "%d:%d:%d:%d:%d;" (int_of_z a.data_start) (int_of_z a.seg_size) (int_of_z a.ret_target)
             (int_of_z a.ret_addr) (int_of_z a.debug_info)) (L.rev s.stack);
  pr " en=";
  L.iter (fun b -> pr "%s:%d;" (hexs b.bfile) (int_of_z b.bline)) s.enabled;
  pr " step=%d" (if s.stepping then 1 else 0);
  (match getCurrentBreak s with
   | None -> pr " cur=none"
   | Some b -> pr " cur=%s:%d" (hexs b.bfile) (int_of_z b.bline));
  (match isDone s with
   | Base.Ok b -> pr " done=%d" (if b then 1 else 0)
   | _ -> pr " done=UB");
  pr " ops=";
  L.iter (fun i -> Buffer.add_char buf (Stdlib.String.get opch (int_of_opcode i.iop))) s.prog.code;
  pr " views=";
  (match views s with
   | Base.Ok vs ->
       L.iter (fun (fn, vars) ->
         pr "%s{" (hexs fn);
         L.iter (fun (n, v) -> pr "%s=%d," (hexs n) (int_of_z v)) vars;
         pr "};") vs
   | _ -> pr "UB")

(* the same invariants impl_driver evaluates on the implementation *)
let vm_invariants (s : vm) : string =
  let rec go off = function
    | [] -> if off <> L.length s.data then "tile:total" else ""
    | a :: rest ->
        if int_of_z a.data_start <> off then "tile:start"
        else if int_of_z a.seg_size < 0 then "tile:size"
        else go (off + int_of_z a.seg_size) rest in
  let r = go 0 (L.rev s.stack) in
  if r <> "" then r
  else if L.exists (fun w -> int_of_z w < 0) s.data then "range:neg" else ""

let trh = ref 0 and trn = ref 0
(* the same rolling hash as impl_driver (arithmetic modulo 2^61-1 needs 128-bit products: do it in steps) *)
let mulmod a b m =
  (* a*b mod m for a,b < 2^61 using double-and-add *)
  let r = ref 0 and a = ref (a mod m) and b = ref b in
  while !b > 0 do
    if !b land 1 = 1 then r := (!r + !a) mod m;
    a := (!a * 2) mod m;
    b := !b lsr 1
  done; !r
let step_traced (s : vm) =
  let m = 2305843009213693951 in
  (match Base.znth s.prog.code s.ip with
   | Some i ->
       (match i.iop with
        | POTENTIAL_BREAK | BREAK | HALT -> ()
        | _ -> trh := (mulmod !trh 1000003 m + (int_of_z s.ip * 31 + 7) mod m) mod m; incr trn)
   | None -> ());
  get (exec1 s)

let run_vm tk =
  let p = read_program tk in
  trh := 0; trn := 0;
  let s = ref (init p) in
  let m = num tk in
  for _ = 1 to m do
    let c = next tk in
    (match c with
     | "B" ->
         let f = sstr tk in let l = zed tk in let v = num tk <> 0 in
         let (s', r) = get (setBreakPoint !s f l v) in
         s := s'; pr "r=%d " (if r then 1 else 0)
     | "C" -> s := get (clearBreakpoints !s); pr "r=1 "
     | "S" -> let v = num tk <> 0 in s := setSteppingMode !s v; pr "r=1 "
     | "R" -> s := get (reset !s); trh := 0; trn := 0; pr "r=1 "
     | "P" ->
         let cap = num tk in
         pr "path=";
         (try
           for _ = 1 to cap do
             pr "%d," (int_of_z !s.ip);
             let halted = get (isDone !s) in
             let (s', _) = step_traced !s in
             s := s';
             if halted then raise Exit
           done
         with Exit -> ());
         pr " r=1 "
     | "X" | "XR" ->
         let cap = if c = "X" then num tk else 10000000 in
         let stopped = ref false in
         let n = ref 0 in
         while not !stopped && !n < cap do
           let (s', b) = step_traced !s in
           s := s'; incr n; if b then stopped := true
         done;
         if not !stopped then raise (Stop "FUEL");
         pr "r=1 "
     | "XS" ->
         let cap = num tk in
         let stopped = ref false in
         let n = ref 0 in
         let bad = ref "" in
         let maxdata = ref 0 and maxdepth = ref 0 in
         while not !stopped && !n < cap do
           let (s', b) = step_traced !s in
           s := s';
           if !bad = "" then begin
             let r = vm_invariants !s in
             if r <> "" then bad := r ^ "@" ^ string_of_int !n
           end;
           maxdata := max !maxdata (L.length !s.data);
           maxdepth := max !maxdepth (L.length !s.stack);
           incr n; if b then stopped := true
         done;
         pr "inv=%s n=%d maxdata=%d maxdepth=%d " (if !bad = "" then "ok" else !bad) !n !maxdata !maxdepth;
         if not !stopped then raise (Stop "FUEL");
         pr "r=1 "
     | "I" ->
         let (s', b) = step_traced !s in
         s := s'; pr "r=%d " (if b then 1 else 0)
     | _ -> raise Bad_case);
    print_vm_state !s;
    pr " tr=%d:%d | " !trn !trh
  done;
  pr "END"

let run_checkprog tk =
  let p = read_program tk in
  let b x = if x then 1 else 0 in
  pr "wf=%d acyclic=%d tables=%d nobreak=%d consts=%d counts=%d halt=%d targets=%d"
    (b (VMCheck.wf_program p)) (b (VMCheck.acyclic_calls p)) (b (VMSpec.tables_ok p)) (b (VMSpec.no_break p))
    (b (VMSpec.consts_in_range p)) (b (VMSpec.counts_ok p)) (b (VMCheck.ends_in_halt p))
    (L.length (VMCheck.exec_targets p))

(* ---- compiler stages ---- *)
let string_of_coqstring (s : char list) : string =
  let b = Buffer.create 16 in L.iter (Buffer.add_char b) s; Buffer.contents b

let read_files tk =
  let main = sstr tk in
  let k = num tk in
  let files = times k (fun () -> let n = sstr tk in let c = sstr tk in (n, c)) in
  (main, files)

let tok_s (t : Tokens.token) =
  Printf.sprintf "%d:%s:%d:%s" (int_of_n (Tokens.tk_num t.Tokens.tk)) (hexs t.Tokens.tfile)
    (int_of_z t.Tokens.tline) (hexs t.Tokens.ttext)
let print_tokens (v : Tokens.token list) =
  pr "toks=%d" (L.length v); L.iter (fun t -> pr " %s" (tok_s t)) v
let perr_s (e : Errors.perr) =
  Printf.sprintf "%d@%s:%d[%s]M%s" (int_of_z (Errors.perr_type e.Errors.pe_kind)) (hexs e.Errors.pe_file)
    (int_of_z e.Errors.pe_line) (hexs e.Errors.pe_request) (string_of_coqstring (Errors.ekind_name e.Errors.pe_kind))
let print_perrs (v : Errors.perr list) =
  pr " errs=%d" (L.length v); L.iter (fun e -> pr " %s" (perr_s e)) v

let run_scan tk =
  let (main, files) = read_files tk in
  let (toks, errs) = get (Scan.scan Gen_Lexer.rules files main) in
  print_tokens toks; print_perrs errs

let print_macros (ms : MacroExtract.macrodef list) =
  pr " macros=%d" (L.length ms);
  L.iter (fun (m : MacroExtract.macrodef) ->
    pr " {prio=%d rule=%d" (int_of_z m.MacroExtract.m_priority) (L.length m.MacroExtract.m_rule);
    L.iter (fun t -> pr " %s" (tok_s t)) m.MacroExtract.m_rule;
    pr " cc="; L.iter (fun i -> pr "%d," (int_of_z i)) m.MacroExtract.m_cc;
    pr " tt="; L.iter (fun i -> pr "%d," (int_of_z i)) m.MacroExtract.m_tt;
    pr " repl=%d" (L.length m.MacroExtract.m_repl);
    L.iter (fun t -> pr " %s" (tok_s t)) m.MacroExtract.m_repl;
    pr "}") ms

let run_extract tk =
  let (main, files) = read_files tk in
  let (toks, errs) = get (Scan.scan Gen_Lexer.rules files main) in
  let ((xerrs, out), macros) = get (MacroExtract.extract_macros toks) in
  print_tokens out; print_perrs xerrs; print_macros macros

let run_apply tk =
  let budget = num tk in
  let (main, files) = read_files tk in
  let (toks, _) = get (Scan.scan Gen_Lexer.rules files main) in
  let ((_, out), macros) = get (MacroExtract.extract_macros toks) in
  let (errs, res) = get (MacroApply.apply_macros out macros (nat_of_int budget)) in
  print_tokens res; print_perrs errs

let rec print_ast (n : Parser.node option) =
  match n with
  | None -> pr "_"
  | Some (Parser.Node (t, line, file, tok, l, r)) ->
      pr "(%d %d %s %s " (int_of_z (Parser.ntype_num t)) (int_of_z line) (hexs file) (hexs tok);
      print_ast l; pr " "; print_ast r; pr ")"

let ekind_s k = string_of_coqstring (Errors.ekind_name k)

let run_parse tk =
  let (main, files) = read_files tk in
  let r = get (Compile.parse files main) in
  pr "ok=%d ast=" (if r.Compile.pr_ok then 1 else 0);
  print_ast r.Compile.pr_root;
  pr " errs=%d" (L.length r.Compile.pr_errors);
  L.iter (fun (e : Parser.serr) -> pr " %s:%d:M%s" (hexs e.Parser.se_file) (int_of_z e.Parser.se_line) (ekind_s e.Parser.se_kind)) r.Compile.pr_errors;
  pr " req=%d" (L.length r.Compile.pr_requests);
  L.iter (fun f -> pr " %s" (hexs f)) r.Compile.pr_requests

let run_compile tk =
  let (main, files) = read_files tk in
  let r = get (Compile.compile files main) in
  pr "ok=%d errs=%d" (if r.Compile.cr_ok then 1 else 0) (L.length r.Compile.cr_errors);
  L.iter (fun (e : GenModel.gerr) -> pr " %d@%s:%d:M%s" (int_of_z e.GenModel.ge_type) (hexs e.GenModel.ge_file)
             (int_of_z e.GenModel.ge_line) (ekind_s e.GenModel.ge_kind)) r.Compile.cr_errors;
  pr " req=%d" (L.length r.Compile.cr_requests);
  L.iter (fun f -> pr " %s" (hexs f)) r.Compile.cr_requests;
  pr " ";
  print_program r.Compile.cr_prog

(* ---- reference semantics ---- *)
let print_rviews (vs : RefSem.rviews) =
  L.iter (fun (name, vars) ->
    pr "%s{" (hexs name);
    let vars = L.sort compare (L.map (fun (n, v) -> (string_of_str n, int_of_z v)) vars) in
    L.iter (fun (n, v) -> pr "%s=%d," (hex n) v) vars;
    pr "};") vs

let run_refrun tk =
  let fuel = num tk in
  let (main, files) = read_files tk in
  let r = get (Compile.parse files main) in
  if not r.Compile.pr_ok then pr "REJECTED_BY_PARSER"
  else match RefSem.abstract_source r.Compile.pr_root with
  | None -> pr "NOSOURCE"
  | Some rs ->
      pr "routines=%d " (L.length rs);
      let print_trace tr =
        pr " trace=%d" (L.length tr);
        L.iter (fun ((f, l), vs) -> pr " %s:%d@" (hexs f) (int_of_z l); print_rviews vs) tr in
      (match RefSem.run_ref (nat_of_int fuel) rs with
       | RefSem.OStop (vs, steps, tr) -> pr "STOP steps=%d views=" (int_of_nat steps); print_rviews vs; print_trace tr
       | RefSem.ODone (_, steps, tr) -> pr "DONE steps=%d" (int_of_nat steps); print_trace tr
       | RefSem.OFuel -> pr "REFFUEL"
       | RefSem.OBad -> pr "REFBAD")

(* ---- LR generator ---- *)
let read_sym (w : string) : Grammar.sym =
  if w = "e" then Grammar.Eps
  else begin
    let idx = n_of_int (int_of_string (Stdlib.String.sub w 1 (Stdlib.String.length w - 1))) in
    if Stdlib.String.get w 0 = 't' then Grammar.Tm idx else Grammar.Nt idx
  end
let sym_s = function
  | Grammar.Eps -> "e"
  | Grammar.Tm i -> "t" ^ string_of_int (int_of_n i)
  | Grammar.Nt i -> "n" ^ string_of_int (int_of_n i)

(* returns the grammar and the table (lhs, alternative index) -> rule number *)
let read_grammar tk =
  let nnt = num tk in
  let g = ref Grammar.empty_grammar in
  for _ = 1 to nnt do g := fst (Grammar.create_nt !g) done;
  let nr = num tk in
  let tags = ref [] in
  for r = 0 to nr - 1 do
    let lhs = read_sym (next tk) in
    let k = num tk in
    let rhs = times k (fun () -> read_sym (next tk)) in
    (match lhs with
     | Grammar.Nt _ ->
         let alt = L.length (Grammar.rs_get !g lhs) in
         tags := ((sym_s lhs, alt), r) :: !tags;
         g := Grammar.add_rule !g lhs rhs
     | _ -> ())
  done;
  (!g, !tags)

let print_first (g : Grammar.grammar) =
  pr "first=";
  L.iter (fun (s, set) ->
    pr "%s:" (sym_s s); L.iter (fun x -> pr "%s," (sym_s x)) set; pr ";") g.Grammar.first_sets;
  pr " maxterm=%d" (int_of_n g.Grammar.max_term)

let run_first tk =
  let (g, _) = read_grammar tk in
  let g' = get (Grammar.calculate_first_sets g) in
  print_first g'

let run_lr tk =
  let prefix = num tk <> 0 in
  let eofi = n_of_int (num tk) in
  let start = read_sym (next tk) in
  let (g, tags) = read_grammar tk in
  let (((g', tab), confs), states) =
    get (LR.generate_tables (nat_of_int 20000) g prefix start (Grammar.Tm eofi)) in
  print_first g';
  pr " states=%d" (L.length states);
  L.iter (fun st ->
    pr " [";
    L.iter (fun e -> pr "%s.%d.%d.%s," (sym_s e.LR.i_left) (int_of_n e.LR.i_alt) (int_of_n e.LR.i_dot) (sym_s e.LR.i_follow)) st.LR.st_items;
    pr "|";
    L.iter (fun (s, t) -> pr "%s>%d," (sym_s s) (int_of_z t)) st.LR.st_jump;
    pr "]") states;
  pr " conflicts=%d" (L.length confs);
  L.iter (fun c ->
    let tag = match c.LR.cf_tag with LR.Coq_c_ps -> "ps" | LR.Coq_c_prr -> "prr" | LR.Coq_c_prs -> "prs" | LR.Coq_c_ar -> "ar" | LR.Coq_c_as -> "as" in
    pr " %d:%s:%d:%d" (int_of_z c.LR.cf_type) tag (int_of_z c.LR.cf_state) (int_of_z c.LR.cf_term)) confs;
  let j = num tk in
  pr " parses=%d" j;
  let sem lhs alt popped =
    let r = try L.assoc (sym_s lhs, int_of_n alt) tags with Not_found -> -1 in
    "(r" ^ string_of_int r ^ Stdlib.String.concat "" (L.map (fun x -> " " ^ x) popped) ^ ")" in
  for _ = 1 to j do
    let n = num tk in
    let input = times n (fun () -> num tk) in
    match LR.parse (fun t -> n_of_int t) (fun t -> "t" ^ string_of_int t) sem tab (nat_of_int 4000) input with
    | Base.Ok (Some v) -> pr " A%s" (hex v)
    | Base.Ok None -> pr " R"
    | Base.UB k -> raise (Stop ("UB " ^ ub_name k))
    | Base.Fuel -> raise (Stop "FUEL")
  done

(* every word of every star-free rule of the rule table translated from lexer.l (keyword spellings) *)
let run_spellings () =
  (* the spellings of the DOCUMENTED table first (they are what the property promises), then those of the rule list
     translated from lexer.l now (a spelling that was added must be tokenised as the documentation says, too) *)
  L.iter (fun (r, _) -> if SpecLex.star_free r then L.iter (fun w -> pr "%s " (hexs w)) (SpecLex.lang r)) SpecLex.spec_rules;
  L.iter (fun (r, _) -> if SpecLex.star_free r then L.iter (fun w -> pr "%s " (hexs w)) (SpecLex.lang r)) Gen_Lexer.rules

(* the scanner of the DOCUMENTED token table (SpecLex.spec_rules), not of the rule list translated from lexer.l *)
let run_scanspec tk =
  let (main, files) = read_files tk in
  let (toks, errs) = get (Scan.scan SpecLex.spec_rules files main) in
  print_tokens toks; print_perrs errs

let run_case tk =
  match next tk with
  | "spellings" -> run_spellings ()
  | "scanspec" -> run_scanspec tk
  | "extract" -> run_extract tk
  | "parse" -> run_parse tk
  | "compile" -> run_compile tk
  | "refrun" -> run_refrun tk
  | "apply" -> run_apply tk
  | "first" -> run_first tk
  | "lr" -> run_lr tk
  | "vm" -> run_vm tk
  | "checkprog" -> run_checkprog tk
  | "scan" -> run_scan tk
  | _ -> pr "NOTMODELLED"

exception Case_timeout
let () =
  let tmo = if Array.length Sys.argv > 2 then int_of_string Sys.argv.(2) else 60 in
  Sys.set_signal Sys.sigalrm (Sys.Signal_handle (fun _ -> raise Case_timeout));
  let ic = open_in_bin Sys.argv.(1) in
  (try
     while true do
       let line = input_line ic in
       let ws = L.filter (fun s -> s <> "") (Stdlib.String.split_on_char ' ' line) in
       match ws with
       | "CASE" :: id :: rest ->
           Buffer.clear buf;
           let tk = { t = Array.of_list rest; p = 0 } in
           ignore (Unix.alarm tmo);
           (try run_case tk with
            | Case_timeout -> Buffer.clear buf; pr "TIMEOUT"
            | Stop s -> pr "%s" s
            | Bad_case -> Buffer.clear buf; pr "BADCASE"
            | Stack_overflow -> Buffer.clear buf; pr "MODELSTACK");
           ignore (Unix.alarm 0);
           print_string id; print_char ' '; print_string (Buffer.contents buf); print_newline ()
       | _ -> ()
     done
   with End_of_file -> ())
