// impl_driver.cpp — runs libtheo (compiled from /repo's working tree with -DTHEO_VERIF_HOOKS) on a
// case file and prints one canonical line per case.  Protocol: DESIGN.md Appendix D.
// usage: impl_driver <casefile> [per-case-timeout-seconds]
#include <signal.h>
#include <sys/wait.h>
#include <unistd.h>

#include <algorithm>
#include <cstdio>
#include <cstdlib>
#include <cstring>
#include <fstream>
#include <iostream>
#include <map>
#include <set>
#include <sstream>
#include <string>
#include <vector>

#include "Compiler/include/compiler.hpp"
#include "Compiler/include/gen.hpp"
#include "Compiler/include/macro.hpp"
#include "Compiler/include/parse.hpp"
#include "Compiler/include/scan.hpp"
#include "Compiler/include/ParserGenerator/grammar.hpp"
#include "Compiler/include/ParserGenerator/lrdea.hpp"
#include "Compiler/include/ParserGenerator/lrparser.hpp"
#include "VM/include/vm.hpp"

#ifdef VERIF_COVERAGE
extern "C" void __gcov_dump(void);   // development build for tools/coverage.py only
#endif
#if defined(__SANITIZE_ADDRESS__)
#include <sanitizer/lsan_interface.h>
#define VERIF_LEAK_CHECK 1
#endif

using namespace Theo;

static std::string hex(const std::string &s) {
  if (s.empty()) return "-";
  static const char *d = "0123456789abcdef";
  std::string r;
  for (unsigned char c : s) {
    r.push_back(d[c >> 4]);
    r.push_back(d[c & 15]);
  }
  return r;
}
static std::string unhex(const std::string &h) {
  if (h == "-") return "";
  std::string r;
  for (size_t i = 0; i + 1 < h.size(); i += 2) {
    auto v = [](char c) { return c <= '9' ? c - '0' : c - 'a' + 10; };
    r.push_back((char)(v(h[i]) * 16 + v(h[i + 1])));
  }
  return r;
}

struct Toks {
  std::vector<std::string> t;
  size_t p = 0;
  bool more() { return p < t.size(); }
  std::string next() {
    if (p >= t.size()) { printf("BADCASE\n"); fflush(stdout); _exit(3); }
    return t[p++];
  }
  long num() { return atol(next().c_str()); }
  std::string str() { return unhex(next()); }
};

static void read_files(Toks &tk, std::string &main, std::map<FileName, FileContent> &files) {
  main = tk.str();
  long k = tk.num();
  for (long i = 0; i < k; i++) {
    std::string n = tk.str();
    std::string c = tk.str();
    files[n] = c;
  }
}

static std::string tok_s(const Token &t) {
  return std::to_string((int)t.t) + ":" + hex(t.file) + ":" + std::to_string(t.line) + ":" + hex(t.text);
}

static bool starts(const std::string &s, const char *p) { return s.rfind(p, 0) == 0; }
static bool ends(const std::string &s, const char *p) {
  size_t n = strlen(p);
  return s.size() >= n && s.compare(s.size() - n, n, p) == 0;
}

// message text -> small enumeration (the model does not carry message texts)
static std::string msg_kind(const std::string &m) {
  if (starts(m, "main file '")) return "main_not_found";
  if (starts(m, "expected filename after include")) return "expected_filename";
  if (starts(m, "file '") && ends(m, "' not found")) return "file_not_found";
  if (starts(m, "file '") && ends(m, "' is included recursively")) return "recursive_include";
  if (starts(m, "expected token type '")) return "macro_expect";
  if (starts(m, "second 'define' inside")) return "macro_nested_define";
  if (starts(m, "second 'as' inside")) return "macro_nested_as";
  if (starts(m, "empty definition of macro")) return "macro_empty";
  if (starts(m, "the macro you defined is non-linear")) return "macro_non_lr";
  if (starts(m, "Error: After ")) return "macro_max_passes";
  if (starts(m, "unkown token")) return "unknown_token";
  if (starts(m, "value '") && ends(m, "' is out of range")) return "range";
  if (ends(m, " does not reference a pattern")) return "range_insertion";
  if (starts(m, "expected '")) return "expected_token";
  if (starts(m, "probable missing ';'")) return "missing_semi";
  if (starts(m, "program definition not allowed here")) return "prog_not_allowed";
  if (starts(m, "expected assignment (:=)")) return "expected_assign";
  if (starts(m, "expected program component")) return "expected_component";
  if (starts(m, "probable excess semicolon")) return "excess_semi";
  if (starts(m, "expected value:")) return "expected_value";
  if (starts(m, "expected EOF, but got excess input")) return "excess_input";
  if (starts(m, "parameter '") && ends(m, "' is declared twice")) return "param_twice";
  if (starts(m, "unknown name ")) return "unknown_name";
  if (starts(m, "expected ") && m.find(" arguments but got ") != std::string::npos) return "argsize";
  if (starts(m, "In program '") && ends(m, "' is referenced but is never set")) return "unknown_mark";
  if (starts(m, "backpatching failed")) return "backpatch_failed";
  if (starts(m, "attempted to backpatch")) return "backpatch_nonjmp";
  if (starts(m, "node type ")) return "malformed_ast";
  return "other";
}

static std::string perr_s(const ParseError &e) {
  return std::to_string((int)e.t) + "@" + hex(e.file) + ":" + std::to_string(e.line) + "[" + hex(e.file_request) +
         "]" + (e.msg.empty() ? "E" : "M") + msg_kind(e.msg);
}

static void print_tokens(const std::vector<Token> &v) {
  printf("toks=%zu", v.size());
  for (auto &t : v) printf(" %s", tok_s(t).c_str());
}
static void print_perrs(const std::vector<ParseError> &v) {
  printf(" errs=%zu", v.size());
  for (auto &e : v) printf(" %s", perr_s(e).c_str());
}

static void print_macros(const std::vector<MacroDefinition> &ms) {
  printf(" macros=%zu", ms.size());
  for (auto &m : ms) {
    printf(" {prio=%d rule=%zu", m.priority, m.rule.size());
    for (auto &t : m.rule) printf(" %s", tok_s(t).c_str());
    printf(" cc=");
    for (auto i : m.content_constraint_token_indices) printf("%u,", i);
    printf(" tt=");
    for (auto i : m.template_token_indices) printf("%u,", i);
    printf(" repl=%zu", m.replacement.size());
    for (auto &t : m.replacement) printf(" %s", tok_s(t).c_str());
    printf("}");
  }
}

static int nargs_of(OpCode o) {
  switch (o) {
    case OpCode::POTENTIAL_BREAK: case OpCode::BREAK: case OpCode::HALT: return 0;
    case OpCode::JMP: case OpCode::EXEC: case OpCode::RET: return 1;
    case OpCode::CONST: case OpCode::JMPC: case OpCode::ARG: return 2;
    default: return 3;
  }
}

static void print_program(const Program &p) {
  printf("PROG %zu", p.code.size());
  for (auto &i : p.code) {
    int n = nargs_of(i.op);
    printf(" %d %d %d %d", (int)i.op, n >= 1 ? i.parameters.test.target : 0, n >= 2 ? i.parameters.test.op1 : 0,
           n >= 3 ? i.parameters.test.op2 : 0);
  }
  printf(" %zu", p.stack_maps.size());
  for (auto &m : p.stack_maps) {
    printf(" %s %zu", hex(m.func_name).c_str(), m.map.size());
    for (auto &e : m.map) printf(" %d %s", e.first, hex(e.second).c_str());
  }
  printf(" %zu", p.potential_breaks.size());
  for (auto &e : p.potential_breaks) {
    printf(" %s %d %zu", hex(e.first.file).c_str(), e.first.line, e.second.size());
    for (auto i : e.second) printf(" %d", i);
  }
  printf(" %zu", p.line_info.size());
  for (auto &e : p.line_info) printf(" %d %s %d", e.first, hex(e.second.file).c_str(), e.second.line);
}

static Program read_program(Toks &tk) {
  Program p;
  std::string w = tk.next();
  if (w != "PROG") { printf("BADCASE\n"); fflush(stdout); _exit(3); }
  long n = tk.num();
  for (long k = 0; k < n; k++) {
    Instruction i;
    memset(&i, 0, sizeof i);
    i.op = (OpCode)tk.num();
    i.parameters.test.target = (int)tk.num();
    i.parameters.test.op1 = (int)tk.num();
    i.parameters.test.op2 = (int)tk.num();
    p.code.push_back(i);
  }
  n = tk.num();
  for (long k = 0; k < n; k++) {
    Program::StackMap m;
    m.func_name = tk.str();
    long e = tk.num();
    for (long j = 0; j < e; j++) {
      int r = (int)tk.num();
      m.map[r] = tk.str();
    }
    p.stack_maps.push_back(m);
  }
  n = tk.num();
  for (long k = 0; k < n; k++) {
    BreakPoint b;
    b.file = tk.str();
    b.line = (int)tk.num();
    long e = tk.num();
    std::vector<ProgramIndex> v;
    for (long j = 0; j < e; j++) v.push_back((int)tk.num());
    p.potential_breaks[b] = v;
  }
  n = tk.num();
  for (long k = 0; k < n; k++) {
    int i = (int)tk.num();
    BreakPoint b;
    b.file = tk.str();
    b.line = (int)tk.num();
    p.line_info[i] = b;
  }
  return p;
}

static void print_ast(Node *n) {
  if (n == NULL) { printf("_"); return; }
  printf("(%d %d %s %s ", (int)n->t, n->line, hex(n->file).c_str(), hex(n->tok).c_str());
  print_ast(n->left);
  printf(" ");
  print_ast(n->right);
  printf(")");
}

// ---- VM observation -------------------------------------------------------------------------
static const char OPCH[] = "pBHAJCPGXRKT";

static void print_vm_state(VM &vm) {
  const Program &p = vm.verifProgram();
  int ip = vm.verifInstructionPointer();
  printf("ip=%d data=", ip);
  for (auto w : vm.verifData()) printf("%d,", w);
  printf(" stack=");
  auto frames = vm.verifFrames();
  for (auto &f : frames) printf("%d:%d:%d:%d:%d;", f.data_start, f.seg_size, f.ret_target, f.ret_addr, f.debug_info);
  printf(" en=");
  for (auto &b : vm.getEnabledBreakPoints()) printf("%s:%d;", hex(b.file).c_str(), b.line);
  printf(" step=%d", vm.isSteppingModeEnabled() ? 1 : 0);
  BreakPoint cb = vm.getCurrentBreak();
  auto li = p.line_info.find(ip - 1);
  if (li == p.line_info.end()) {
    // the API must say {"none", -1}
    if (cb.file == "none" && cb.line == -1) printf(" cur=none");
    else printf(" cur=BAD");
  } else printf(" cur=%s:%d", hex(cb.file).c_str(), cb.line);
  if (ip < 0 || ip >= (int)p.code.size()) printf(" done=UB");
  else printf(" done=%d", vm.isDone() ? 1 : 0);
  printf(" ops=");
  for (auto &i : p.code) putchar(OPCH[(int)i.op]);
  printf(" views=");
  bool ub = false;
  for (auto &f : frames)
    if (f.debug_info < 0 || f.debug_info >= (int)p.stack_maps.size()) ub = true;
  if (!ub) {
    for (size_t k = 0; k < frames.size() && !ub; k++) {
      if (frames[k].seg_size <= 0) continue;
      for (auto &e : p.stack_maps[frames[k].debug_info].map) {
        long idx = (long)frames[k].data_start + e.first;
        if (idx < 0 || idx >= (long)vm.verifData().size()) ub = true;
      }
    }
  }
  if (ub) printf("UB");
  else {
    auto &acts = vm.getActivations();
    for (size_t k = 0; k < acts.size(); k++) {
      printf("%s{", hex(p.stack_maps[frames[k].debug_info].func_name).c_str());
      for (auto &e : acts[k].getActivationVariables()) printf("%s=%d,", hex(e.first).c_str(), e.second);
      printf("};");
    }
  }
}

// invariants of C19 (frames tile data) and C20 (values in range), evaluated on the implementation
static std::string vm_invariants(VM &vm) {
  auto frames = vm.verifFrames();
  long off = 0;
  for (auto &f : frames) {
    if (f.data_start != off) return "tile:start";
    if (f.seg_size < 0) return "tile:size";
    off += f.seg_size;
  }
  if (off != (long)vm.verifData().size()) return "tile:total";
  for (auto w : vm.verifData())
    if (w < 0) return "range:neg";
  return "";
}

// rolling hash of the executed non-break instructions (C05: the instruction path)
static unsigned long long g_trh = 0;
static long g_trn = 0;
static bool step_traced(VM &vm) {
  int ip = vm.verifInstructionPointer();
  const Program &p = vm.verifProgram();
  if (ip >= 0 && ip < (int)p.code.size()) {
    OpCode o = p.code[ip].op;
    if (o != OpCode::POTENTIAL_BREAK && o != OpCode::BREAK && o != OpCode::HALT) {
      g_trh = (unsigned long long)(((unsigned __int128)g_trh * 1000003ULL + (unsigned long long)ip * 31ULL + 7ULL) % 2305843009213693951ULL);
      g_trn++;
    }
  }
  return vm.executeSingle();
}

static void run_vm(Toks &tk) {
  Program p = read_program(tk);
  VM vm(p);
  long m = tk.num();
  for (long k = 0; k < m; k++) {
    std::string c = tk.next();
    if (c == "B") {
      std::string f = tk.str();
      int line = (int)tk.num();
      int v = (int)tk.num();
      bool r = vm.setBreakPoint(f, line, v != 0);
      printf("r=%d ", r ? 1 : 0);
    } else if (c == "C") {
      vm.clearBreakpoints();
      printf("r=1 ");
    } else if (c == "S") {
      vm.setSteppingMode(tk.num() != 0);
      printf("r=1 ");
    } else if (c == "R") {
      vm.reset();
      g_trh = 0;
      g_trn = 0;
      printf("r=1 ");
    } else if (c == "T") {
      // complete stepping run: the location and the views of all activations at every stop
      long cap = tk.num();
      long maxstops = tk.num();
      vm.setSteppingMode(true);
      long n = 0, stops = 0;
      size_t maxdepth = 0;
      bool ended = false;
      printf("trace=");
      while (n < cap && stops < maxstops) {
        int ip = vm.verifInstructionPointer();
        const Program &pp = vm.verifProgram();
        if (ip < 0 || ip >= (int)pp.code.size()) break;
        OpCode o = pp.code[ip].op;
        bool r = step_traced(vm);
        n++;
        maxdepth = std::max(maxdepth, vm.verifFrames().size());
        if (o == OpCode::HALT) { ended = true; break; }
        if (r) {
          BreakPoint cb = vm.getCurrentBreak();
          printf(" %s:%d@", hex(cb.file).c_str(), cb.line);
          auto frames = vm.verifFrames();
          auto &acts = vm.getActivations();
          for (size_t k = 0; k < acts.size(); k++) {
            printf("%s{", hex(pp.stack_maps[frames[k].debug_info].func_name).c_str());
            for (auto &e : acts[k].getActivationVariables()) printf("%s=%d,", hex(e.first).c_str(), e.second);
            printf("};");
          }
          stops++;
        }
      }
      printf(" ended=%d stops=%ld n=%ld maxdepth=%zu r=1 ", ended ? 1 : 0, stops, n, maxdepth);
    } else if (c == "P") {
      // the instruction path: instruction pointers before each executed instruction, until HALT or cap
      long cap = tk.num();
      printf("path=");
      for (long n = 0; n < cap; n++) {
        int ip = vm.verifInstructionPointer();
        printf("%d,", ip);
        bool halted = vm.isDone();
        step_traced(vm);
        if (halted) break;
      }
      printf(" r=1 ");
    } else if (c == "X") {
      // execute(), emulated by single steps under a cap so that divergence is an observation (FUEL)
      long cap = tk.num();
      bool stopped = false;
      for (long n = 0; n < cap; n++)
        if (step_traced(vm)) { stopped = true; break; }
      if (!stopped) { printf("FUEL\n"); return; }
      printf("r=1 ");
    } else if (c == "XR") {
      // the real VM::execute()
      vm.execute();
      printf("r=1 ");
    } else if (c == "XS") {
      // like X, checking the C19/C20 invariants at every instruction boundary
      long cap = tk.num();
      bool stopped = false;
      std::string bad;
      long n = 0;
      size_t maxdata = 0, maxdepth = 0;
      for (; n < cap; n++) {
        bool b = step_traced(vm);
        if (bad.empty()) {
          bad = vm_invariants(vm);
          if (!bad.empty()) bad += "@" + std::to_string(n);
        }
        maxdata = std::max(maxdata, vm.verifData().size());
        maxdepth = std::max(maxdepth, vm.verifFrames().size());
        if (b) { stopped = true; break; }
      }
      printf("inv=%s n=%ld maxdata=%zu maxdepth=%zu ", bad.empty() ? "ok" : bad.c_str(), stopped ? n + 1 : n, maxdata,
             maxdepth);
      if (!stopped) { printf("FUEL\n"); return; }
      printf("r=1 ");
    } else if (c == "I") {
      bool r = step_traced(vm);
      printf("r=%d ", r ? 1 : 0);
    } else {
      printf("BADCALL\n");
      return;
    }
    print_vm_state(vm);
    printf(" tr=%ld:%llu | ", g_trn, g_trh);
  }
  printf("END\n");
}

// ---- LR generator -----------------------------------------------------------------------------
static Grammar::Symbol read_sym(const std::string &s) {
  if (s == "e") return Grammar::Symbol::Epsilon();
  unsigned idx = (unsigned)atol(s.c_str() + 1);
  if (s[0] == 't') return Grammar::Symbol::Terminal(idx);
  return Grammar::Symbol{Grammar::Symbol::NON_TERMINAL, idx};
}
static std::string sym_s(const Grammar::Symbol &s) {
  if (s.t == Grammar::Symbol::EPSILON) return "e";
  return std::string(s.t == Grammar::Symbol::TERMINAL ? "t" : "n") + std::to_string(s.index);
}

static void read_grammar(Toks &tk, SemanticGrammar<std::string> &G) {
  long nnt = tk.num();
  for (long i = 0; i < nnt; i++) G.createNonTerminal();
  long nr = tk.num();
  for (long r = 0; r < nr; r++) {
    Grammar::Symbol lhs = read_sym(tk.next());
    long k = tk.num();
    std::vector<Grammar::Symbol> rhs;
    for (long j = 0; j < k; j++) rhs.push_back(read_sym(tk.next()));
    std::string tag = "r" + std::to_string(r);
    G.add(std::make_pair(lhs, rhs), [tag](std::vector<std::string> v) -> std::string {
      std::string s = "(" + tag;
      for (auto &x : v) s += " " + x;
      return s + ")";
    });
  }
}

static void print_first(Grammar &G) {
  printf("first=");
  for (auto &e : G.first_sets) {
    printf("%s:", sym_s(e.first).c_str());
    for (auto &s : e.second) printf("%s,", sym_s(s).c_str());
    printf(";");
  }
  printf(" maxterm=%u", G.max_used_terminal);
}

static void run_first(Toks &tk) {
  SemanticGrammar<std::string> G;
  read_grammar(tk, G);
  G.calculateFirstSets();
  print_first(G);
  printf("\n");
}

static void run_lr(Toks &tk) {
  bool prefix = tk.num() != 0;
  unsigned eofi = (unsigned)tk.num();
  Grammar::Symbol S = read_sym(tk.next());
  SemanticGrammar<std::string> G;
  read_grammar(tk, G);
  // item sets, on a copy (elements() extends the grammar)
  {
    SemanticGrammar<std::string> G2 = G;
    std::vector<LRState> C = elements(S, Grammar::Symbol::Terminal(eofi), G2);
    print_first(G2);
    printf(" states=%zu", C.size());
    for (auto &st : C) {
      printf(" [");
      for (auto &e : st.elements)
        printf("%s.%u.%u.%s,", sym_s(e.left).c_str(), e.alternative, e.dot, sym_s(e.follow).c_str());
      printf("|");
      for (auto &j : st.jump) printf("%s>%d,", sym_s(j.first).c_str(), j.second);
      printf("]");
    }
  }
  LRParser<std::string, int> parser(
      G, prefix, [](int t) -> Grammar::Symbol { return Grammar::Symbol::Terminal((unsigned)t); },
      [](int t) -> std::string { return "t" + std::to_string(t); }, S, Grammar::Symbol::Terminal(eofi));
  auto res = parser.generateParseTables();
  printf(" conflicts=%zu", res.size());
  for (auto &r : res) {
    const char *tag = starts(r.msg, "(ps)") ? "ps" : starts(r.msg, "(pr) reduce") ? "prr" : starts(r.msg, "(pr) shift") ? "prs"
                      : starts(r.msg, "accept-reduce") ? "ar" : starts(r.msg, "accept-shift") ? "as" : "other";
    // numbers: "... in state N on terminal M"
    size_t a = r.msg.find("in state ");
    size_t b = r.msg.find(" on terminal ");
    std::string st = r.msg.substr(a + 9, b - (a + 9));
    std::string te = r.msg.substr(b + 13);
    printf(" %d:%s:%s:%s", (int)r.t, tag, st.c_str(), te.c_str());
  }
  long j = tk.num();
  printf(" parses=%ld", j);
  for (long k = 0; k < j; k++) {
    long n = tk.num();
    std::vector<int> in;
    for (long q = 0; q < n; q++) in.push_back((int)tk.num());
    // inputs are end-marked by the generator (last token is the eof terminal)
    auto pr = parser.parse(in);
    if (pr.t == pr.ACCEPT) printf(" A%s", hex(pr.st).c_str());
    else printf(" R");
  }
  printf("\n");
}

// ---- compiler stages ---------------------------------------------------------------------------
static void run_case(Toks &tk) {
  std::string cmd = tk.next();
  if (cmd == "vm") { run_vm(tk); return; }
  if (cmd == "first") { run_first(tk); return; }
  if (cmd == "lr") { run_lr(tk); return; }
  if (cmd == "apply" || cmd == "applyraw") {
    long budget = tk.num();
    std::string main;
    std::map<FileName, FileContent> files;
    read_files(tk, main, files);
    ScanResult sr = scan(files, main);
    MacroExtractionResult mer = extract_macros(sr.toks);
    MacroApplicationResult mar = apply_macros(mer.tokens, mer.macros, (unsigned)budget);
    print_tokens(mar.transformed_sequence);
    print_perrs(mar.errors);
    printf("\n");
    return;
  }
  std::string main;
  std::map<FileName, FileContent> files;
  read_files(tk, main, files);
  if (cmd == "scan") {
    ScanResult sr = scan(files, main);
    print_tokens(sr.toks);
    print_perrs(sr.errors);
    printf("\n");
  } else if (cmd == "extract") {
    ScanResult sr = scan(files, main);
    MacroExtractionResult mer = extract_macros(sr.toks);
    print_tokens(mer.tokens);
    print_perrs(mer.errors);
    print_macros(mer.macros);
    printf("\n");
  } else if (cmd == "parse") {
    ParseResult pr = parse(files, main);
    printf("ok=%d ast=", pr.a.parsed_correctly ? 1 : 0);
    print_ast(pr.a.root);
    printf(" errs=%zu", pr.a.errors.size());
    for (auto &e : pr.a.errors)
      printf(" %s:%d:%s%s", hex(e.file).c_str(), e.line, e.msg.empty() ? "E" : "M", msg_kind(e.msg).c_str());
    printf(" req=%zu", pr.missing_files.size());
    for (auto &f : pr.missing_files) printf(" %s", hex(f).c_str());
    printf("\n");
    pr.a.clear();
  } else if (cmd == "compile") {
    CodegenResult r = compile(files, main);
    printf("ok=%d errs=%zu", r.generated_correctly ? 1 : 0, r.errors.size());
    for (auto &e : r.errors)
      printf(" %d@%s:%d:%s%s", (int)e.t, hex(e.file).c_str(), e.line, e.message.empty() ? "E" : "M",
             msg_kind(e.message).c_str());
    printf(" req=%zu", r.file_requests.size());
    for (auto &f : r.file_requests) printf(" %s", hex(f).c_str());
    printf(" ");
    print_program(r.code);
    printf("\n");
  } else {
    printf("BADCMD\n");
  }
}

static long mem_limit_kb = 3L * 1024 * 1024;   // resident memory a single case may use (VERIF_MEM_KB overrides)
int main(int argc, char **argv) {
  if (getenv("VERIF_MEM_KB")) mem_limit_kb = atol(getenv("VERIF_MEM_KB"));
  if (argc < 2) return 2;
  int tmo = argc > 2 ? atoi(argv[2]) : 10;
  int max_timeouts = argc > 3 ? atoi(argv[3]) : 4;  // after that many hangs the rest of the shard is skipped
  int timeouts = 0;
  std::ifstream in(argv[1]);
  std::string line;
  while (std::getline(in, line)) {
    if (line.empty()) continue;
    Toks tk;
    {
      std::istringstream ss(line);
      std::string w;
      while (ss >> w) tk.t.push_back(w);
    }
    if (tk.t.size() < 3 || tk.t[0] != "CASE") continue;
    std::string id = tk.t[1];
    tk.p = 2;
    if (timeouts >= max_timeouts) {
      printf("%s SKIPPED\n", id.c_str());
      continue;
    }
    fflush(stdout);
    pid_t pid = fork();
    if (pid == 0) {
      alarm(tmo);
      printf("%s ", id.c_str());
      run_case(tk);
#ifdef VERIF_LEAK_CHECK
      // memory still reachable from nowhere after the case has returned is a leak of the library
      if (__lsan_do_recoverable_leak_check()) printf("%s LEAK\n", id.c_str());
#endif
      fflush(stdout);
#ifdef VERIF_COVERAGE
      __gcov_dump();
#endif
      _exit(0);
    }
    int st = 0;
    // wait, watching the child's resident memory: a case that grows beyond the limit is killed and reported as
    // MEMLIMIT (work not bounded by the input), so that a runaway allocation cannot take the machine down
    bool memkill = false;
    useconds_t nap = 100;
    for (;;) {
      pid_t w = waitpid(pid, &st, WNOHANG);
      if (w == pid) break;
      if (w < 0) break;
      char pth[64];
      snprintf(pth, sizeof pth, "/proc/%d/statm", (int)pid);
      FILE *f = fopen(pth, "r");
      if (f) {
        long size = 0, rss = 0;
        if (fscanf(f, "%ld %ld", &size, &rss) == 2 && rss * (sysconf(_SC_PAGESIZE) / 1024) > mem_limit_kb) {
          memkill = true;
          kill(pid, SIGKILL);
        }
        fclose(f);
      }
      usleep(memkill ? 1000 : nap);
      if (nap < 20000) nap *= 2;               // short cases are not slowed down, long ones are polled every 20 ms
    }
    if (memkill) {
      printf("\n%s MEMLIMIT\n", id.c_str());
      timeouts++;
    } else if (WIFSIGNALED(st)) {
      int sg = WTERMSIG(st);
      if (sg == SIGALRM) {
        printf("\n%s TIMEOUT\n", id.c_str());
        timeouts++;
      }
      else printf("\n%s CRASH sig%d\n", id.c_str(), sg);
    } else if (WIFEXITED(st) && WEXITSTATUS(st) != 0) {
      printf("\n%s CRASH exit%d\n", id.c_str(), WEXITSTATUS(st));
    }
    fflush(stdout);
  }
  return 0;
}
