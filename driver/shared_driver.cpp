// shared_driver.cpp — C18: compilation and execution are deterministic and share no state.
// usage: shared_driver <inputs> <seed> <rounds> <threads>
// inputs: one compile input per line:  <main-hex> <k> (<name-hex> <content-hex>)^k
// 1. reference: every input compiled and run once, each in a fresh child process;
// 2. sequential history: in ONE process, `rounds` x inputs compile+run calls in a random order, every result compared
//    byte-wise with the reference;
// 3. threads: `threads` threads do the same concurrently (two VMs of different programs alive at the same time too).
// prints "OK <calls>" or "MISMATCH phase=<seq|thr> input=<index> call=<n>" lines.
#include <sys/wait.h>
#include <unistd.h>

#include <atomic>
#include <cstdio>
#include <cstdlib>
#include <fstream>
#include <map>
#include <random>
#include <sstream>
#include <string>
#include <thread>
#include <vector>

#include "Compiler/include/compiler.hpp"
#include "VM/include/vm.hpp"

using namespace Theo;

static std::string unhex(const std::string &h) {
  if (h == "-") return "";
  std::string r;
  for (size_t i = 0; i + 1 < h.size(); i += 2) {
    auto v = [](char c) { return c <= '9' ? c - '0' : c - 'a' + 10; };
    r.push_back((char)(v(h[i]) * 16 + v(h[i + 1])));
  }
  return r;
}

struct Input {
  std::string main;
  std::map<FileName, FileContent> files;
};

static std::string serialise(const Input &in, VM **keep = nullptr) {
  CodegenResult r = compile(in.files, in.main);
  std::ostringstream o;
  o << "ok=" << r.generated_correctly << " errs=" << r.errors.size();
  for (auto &e : r.errors) o << " [" << (int)e.t << "|" << e.file << "|" << e.line << "|" << e.message << "]";
  o << " req=";
  for (auto &f : r.file_requests) o << f << ",";
  o << " code=";
  for (auto &i : r.code.code)
    o << (int)i.op << "." << i.parameters.test.target << "." << i.parameters.test.op1 << "." << i.parameters.test.op2 << ";";
  o << " maps=";
  for (auto &m : r.code.stack_maps) {
    o << m.func_name << "{";
    for (auto &e : m.map) o << e.first << "=" << e.second << ",";
    o << "}";
  }
  o << " pb=";
  for (auto &e : r.code.potential_breaks) {
    o << e.first.file << ":" << e.first.line << "=";
    for (auto i : e.second) o << i << ",";
    o << ";";
  }
  o << " li=";
  for (auto &e : r.code.line_info) o << e.first << "=" << e.second.file << ":" << e.second.line << ";";
  if (r.generated_correctly) {
    VM *vm = new VM(r.code);
    int n = 0;
    while (n < 20000 && !vm->isDone()) {
      vm->executeSingle();
      n++;
    }
    o << " run=" << n << " views=";
    for (auto &a : vm->getActivations()) {
      for (auto &e : a.getActivationVariables()) o << e.first << "=" << e.second << ",";
      o << ";";
    }
    if (keep) *keep = vm; else delete vm;
  }
  return o.str();
}

int main(int argc, char **argv) {
  if (argc < 5) return 2;
  std::vector<Input> inputs;
  {
    std::ifstream f(argv[1]);
    std::string line;
    while (std::getline(f, line)) {
      std::istringstream ss(line);
      std::string w;
      Input in;
      if (!(ss >> w)) continue;
      in.main = unhex(w);
      int k;
      ss >> k;
      for (int i = 0; i < k; i++) {
        std::string n, c;
        ss >> n >> c;
        in.files[unhex(n)] = unhex(c);
      }
      inputs.push_back(in);
    }
  }
  unsigned seed = (unsigned)atoi(argv[2]);
  int rounds = atoi(argv[3]);
  int nthreads = atoi(argv[4]);
  // 1. references, each from a fresh process
  std::vector<std::string> ref(inputs.size());
  for (size_t i = 0; i < inputs.size(); i++) {
    int fd[2];
    if (pipe(fd)) return 3;
    pid_t pid = fork();
    if (pid == 0) {
      close(fd[0]);
      std::string s = serialise(inputs[i]);
      size_t off = 0;
      while (off < s.size()) {
        ssize_t w = write(fd[1], s.data() + off, s.size() - off);
        if (w <= 0) break;
        off += (size_t)w;
      }
      _exit(0);
    }
    close(fd[1]);
    char buf[65536];
    ssize_t n;
    while ((n = read(fd[0], buf, sizeof buf)) > 0) ref[i].append(buf, (size_t)n);
    close(fd[0]);
    int st;
    waitpid(pid, &st, 0);
    if (!WIFEXITED(st) || WEXITSTATUS(st) != 0) ref[i] = "CRASHED";
  }
  // 2. one process, random order, a VM of the previous program kept alive across the next compilation
  long calls = 0, bad = 0;
  {
    std::mt19937 rng(seed);
    VM *prev = nullptr;
    std::string prev_views;
    for (long c = 0; c < (long)rounds * (long)inputs.size(); c++) {
      size_t i = rng() % inputs.size();
      VM *vm = nullptr;
      std::string s = serialise(inputs[i], &vm);
      calls++;
      if (s != ref[i]) {
        printf("MISMATCH phase=seq input=%zu call=%ld\n", i, c);
        bad++;
      }
      if (prev) {
        // the earlier machine must not have been influenced by the compilation and run in between
        std::ostringstream o;
        for (auto &a : prev->getActivations()) {
          for (auto &e : a.getActivationVariables()) o << e.first << "=" << e.second << ",";
          o << ";";
        }
        if (o.str() != prev_views) {
          printf("MISMATCH phase=seq-vm input=%zu call=%ld\n", i, c);
          bad++;
        }
        delete prev;
      }
      prev = vm;
      prev_views.clear();
      if (vm) {
        std::ostringstream o;
        for (auto &a : vm->getActivations()) {
          for (auto &e : a.getActivationVariables()) o << e.first << "=" << e.second << ",";
          o << ";";
        }
        prev_views = o.str();
      }
    }
    delete prev;
  }
  // 3. threads
  if (nthreads > 1) {
    std::atomic<long> tbad(0), tcalls(0);
    std::vector<std::thread> ts;
    for (int t = 0; t < nthreads; t++) {
      ts.emplace_back([&, t]() {
        std::mt19937 rng(seed * 7919u + (unsigned)t);
        for (long c = 0; c < (long)rounds * (long)inputs.size() / nthreads + 1; c++) {
          size_t i = rng() % inputs.size();
          std::string s = serialise(inputs[i]);
          tcalls++;
          if (s != ref[i]) {
            printf("MISMATCH phase=thr input=%zu call=%ld thread=%d\n", i, c, t);
            tbad++;
          }
        }
      });
    }
    for (auto &t : ts) t.join();
    calls += tcalls;
    bad += tbad;
  }
  if (bad == 0) printf("OK %ld\n", calls);
  return bad ? 1 : 0;
}
